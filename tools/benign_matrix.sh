#!/bin/bash
# tools/benign_matrix.sh [id...] — property-PRESERVING changes (seeded/benign-*): build + suite must be green and
# every one of the six quick checks must exit 0 with the change applied (no false alarm).
VERIF="$(cd "$(dirname "$0")/.." && pwd)"; cd "$VERIF"
export GOFLAGS=-mod=mod GOPROXY=off GOSUMDB=off GOTOOLCHAIN=local
IDS="$@"; [ -z "$IDS" ] && IDS=$(ls seeded | grep '^benign-')
for id in $IDS; do
  D="$VERIF/seeded/$id"
  W="$(mktemp -d /tmp/bm.XXXXXX)"
  rsync -a --exclude .git /repo/ "$W/r"/
  if ! (cd "$W/r" && git init -q . && git apply --whitespace=nowarn "$D/patch.diff"); then echo "$id PATCH-DOES-NOT-APPLY"; rm -rf "$W"; continue; fi
  build="ok"; (cd "$W/r" && go build ./... && go vet ./... && go test -count=1 ./...) > "$W/t.log" 2>&1 || build="BUILD-OR-SUITE-FAILS"
  rm -rf "$W"
  res=""
  out="/tmp/benres/$id"; rm -rf "$out"; mkdir -p "$out"
  for P in C14 C15 C16 C17 C18 C20; do
    l="$(tools/try_mutant.sh "$D/patch.diff" "$out" "$P" 2>&1 | head -1)"
    rc=$(echo "$l" | sed -n 's/.*exit=\([0-9]*\).*/\1/p')
    res="$res $P=$rc"
    if [ "$rc" != "0" ]; then cp "$out/$P.log" "$D/alarm-$P.log" 2>/dev/null; fi
  done
  echo "$id $build$res"
  python3 - "$D" "$build" "$res" <<'PY'
import json,sys,os
d,build,res=sys.argv[1:4]
am={}
try: am=json.load(open(os.path.join(d,'agent_meta.json')))
except Exception: pass
r={kv.split('=')[0]:kv.split('=')[1] for kv in res.split()}
json.dump({"kind":"property-preserving change (false-alarm probe)","summary":am.get("summary",""),"why_properties_still_hold":am.get("why_properties_still_hold",""),
 "build_and_suite":build,"quick_check_exit_codes":r,"false_alarm":any(v=="1" for v in r.values()),"refused_or_trouble":any(v=="2" for v in r.values())},
 open(os.path.join(d,'meta.json'),'w'),indent=1)
PY
  rm -rf "$out"
done
