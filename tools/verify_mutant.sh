#!/bin/bash
# tools/verify_mutant.sh <seeded-dir>  — independent confirmation of a seeded change:
# applies <dir>/patch.diff to a scratch copy of /repo; requires build + vet + the unedited test suite green,
# the demonstration <dir>/demo_test.go failing with the change and passing without it. One-line verdict.
set -u
D="$1"
export GOFLAGS=-mod=mod GOPROXY=off GOSUMDB=off GOTOOLCHAIN=local
W="$(mktemp -d /tmp/vm.XXXXXX)"; trap 'rm -rf "$W"' EXIT
rsync -a --exclude .git /repo/ "$W/clean"/ && rsync -a --exclude .git /repo/ "$W/mut"/
(cd "$W/mut" && git init -q . && git apply --whitespace=nowarn "$D/patch.diff") || { echo "PATCH-DOES-NOT-APPLY"; exit 1; }
(cd "$W/mut" && go build ./... && go vet ./... ) > "$W/b.log" 2>&1 || { echo "BUILD-OR-VET-FAILS"; tail -5 "$W/b.log"; exit 1; }
(cd "$W/mut" && go test -count=1 ./... ) > "$W/t.log" 2>&1 || { echo "SUITE-FAILS-WITH-CHANGE"; grep -E "^(---|FAIL)" "$W/t.log" | head -5; exit 1; }
RACE=""
grep -qi '"demo_cmd".*-race' "$D/agent_meta.json" 2>/dev/null && RACE="-race"
cp "$D/demo_test.go" "$W/mut/zz_demo_test.go"; cp "$D/demo_test.go" "$W/clean/zz_demo_test.go"
TESTS=$(grep -o '^func Test[A-Za-z0-9_]*' "$D/demo_test.go" | sed 's/func //' | paste -sd'|')
(cd "$W/mut" && timeout 900 go test $RACE -count=1 -run "^($TESTS)\$" . ) > "$W/dm.log" 2>&1; rm=$?
(cd "$W/clean" && timeout 900 go test $RACE -count=1 -run "^($TESTS)\$" . ) > "$W/dc.log" 2>&1; rc=$?
if [ $rm -ne 0 ] && [ $rc -eq 0 ]; then echo "CONFIRMED: build+vet clean, unedited suite passes with the change, demo fails with it and passes without (go test $RACE -run '$TESTS')"; exit 0; fi
echo "NOT-CONFIRMED demo-with-change-exit=$rm demo-clean-exit=$rc"; tail -5 "$W/dm.log"; tail -5 "$W/dc.log"; exit 1
