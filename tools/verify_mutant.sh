#!/bin/bash
# tools/verify_mutant.sh <outdir> <k>  — independent confirmation of a sub-agent's change:
# applies patch<k>.diff to a scratch copy of /repo; requires build + vet + unedited test suite green,
# the demo failing with the change and passing without it. Prints a one-line verdict.
set -u
OUT="$1"; K="$2"
export GOFLAGS=-mod=mod GOPROXY=off GOSUMDB=off GOTOOLCHAIN=local
W="$(mktemp -d /tmp/vm.XXXXXX)"; trap 'rm -rf "$W"' EXIT
rsync -a --exclude .git /repo/ "$W/clean"/ && rsync -a --exclude .git /repo/ "$W/mut"/
(cd "$W/mut" && git init -q . && git apply --whitespace=nowarn "$OUT/patch$K.diff") || { echo "$OUT $K: PATCH-DOES-NOT-APPLY"; exit 1; }
(cd "$W/mut" && go build ./... && go vet ./... ) > "$W/b.log" 2>&1 || { echo "$OUT $K: BUILD-OR-VET-FAILS"; tail -5 "$W/b.log"; exit 1; }
(cd "$W/mut" && go test -count=1 ./... ) > "$W/t.log" 2>&1 || { echo "$OUT $K: SUITE-FAILS-WITH-CHANGE"; grep -E "^(---|FAIL)" "$W/t.log" | head -5; exit 1; }
RACE=""
grep -qi '"demo_cmd".*-race' "$OUT/meta$K.json" && RACE="-race"
cp "$OUT/demo${K}_test.go" "$W/mut/zz_demo_test.go"; cp "$OUT/demo${K}_test.go" "$W/clean/zz_demo_test.go"
TESTS=$(grep -o '^func Test[A-Za-z0-9_]*' "$OUT/demo${K}_test.go" | sed 's/func //' | paste -sd'|')
(cd "$W/mut" && timeout 600 go test $RACE -count=1 -run "^($TESTS)\$" . ) > "$W/dm.log" 2>&1; rm=$?
(cd "$W/clean" && timeout 600 go test $RACE -count=1 -run "^($TESTS)\$" . ) > "$W/dc.log" 2>&1; rc=$?
if [ $rm -ne 0 ] && [ $rc -eq 0 ]; then echo "$OUT $K: CONFIRMED (demo fails with change, passes without; suite green) race=$RACE"; exit 0; fi
echo "$OUT $K: NOT-CONFIRMED demo-with-change-exit=$rm demo-clean-exit=$rc"; tail -5 "$W/dm.log"; tail -5 "$W/dc.log"; exit 1
