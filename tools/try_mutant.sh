#!/bin/bash
# tools/try_mutant.sh <patch.diff> <outdir> <Cnn> [<Cnn>...]
# Applies a patch to a scratch copy of /repo (never to /repo itself), runs the
# quick tier of the given checks against it with evidence/replays redirected to
# <outdir>, and prints one line per check: <Cnn> exit=<code> signatures...
set -u
PATCH="$1"; OUT="$2"; shift 2
VERIF="$(cd "$(dirname "$0")/.." && pwd)"
M="$(mktemp -d /tmp/mutrepo.XXXXXX)"
trap 'rm -rf "$M"' EXIT
rsync -a --exclude .git /repo/ "$M"/ || exit 2
(cd "$M" && git init -q . && git apply --whitespace=nowarn "$PATCH") || { echo "patch does not apply"; exit 2; }
mkdir -p "$OUT"
for P in "$@"; do
  VERIF_REPO="$M" VERIF_OUT="$OUT" VERIF_TIER="${TIER:-quick}" "$VERIF/check" "$P" "${TIER:-quick}" > "$OUT/$P.log" 2>&1
  rc=$?
  echo "$P exit=$rc $(grep -c '^VIOLATION' "$OUT/$P.log") violations: $(grep 'signature:' "$OUT/$P.log" | sed 's/.*signature: //' | head -4 | tr '\n' ';')"
done
