#!/bin/bash
# tools/seeded_matrix.sh [id...] — for every /verif/seeded/<id>: confirm the change independently,
# run the quick tier of its property's check against it (scratch copy of /repo), write meta.json.
VERIF="$(cd "$(dirname "$0")/.." && pwd)"
cd "$VERIF"
IDS="$@"; [ -z "$IDS" ] && IDS=$(ls seeded)
for id in $IDS; do
  D="$VERIF/seeded/$id"; P="${id%%-*}"
  ver="$(tools/verify_mutant.sh "$D" 2>&1 | head -1)"
  out="/tmp/seedres/$id"; rm -rf "$out"; mkdir -p "$out"
  line="$(tools/try_mutant.sh "$D/patch.diff" "$out" "$P" 2>&1 | head -1)"
  rc=$(echo "$line" | sed -n 's/.*exit=\([0-9]*\).*/\1/p')
  sigs=$(grep 'signature:' "$out/$P.log" | sed 's/.*signature: //' | sort -u | head -6 | python3 -c 'import sys,json; print(json.dumps([l.strip() for l in sys.stdin]))')
  python3 - "$D" "$P" "$ver" "$rc" "$sigs" <<'PY'
import json,sys,os
d,p,ver,rc,sigs=sys.argv[1:6]
am={}
try: am=json.load(open(os.path.join(d,'agent_meta.json')))
except Exception: pass
meta={"property":p,"breaks":am.get("mechanism",""),"needs_to_manifest":am.get("needs",""),"files":am.get("files",[]),
 "what_i_ran":["tools/verify_mutant.sh "+d+"  ->  "+ver,"tools/try_mutant.sh "+d+"/patch.diff <out> "+p+"  (quick tier of ./check "+p+" against a scratch copy of /repo with the patch applied)"],
 "confirmed":ver.startswith("CONFIRMED"),"check_exit":int(rc) if rc else None,"detected":rc=="1","signatures":json.loads(sigs)}
json.dump(meta,open(os.path.join(d,'meta.json'),'w'),indent=1)
print(d, "confirmed" if meta["confirmed"] else "NOT-CONFIRMED", "exit="+str(rc), meta["signatures"][:2])
PY
  rm -rf "$out"
done
