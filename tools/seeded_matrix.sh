#!/bin/bash
# tools/seeded_matrix.sh [id...] — for every /verif/seeded/<id>: confirm the change independently,
# run the quick tier of its property's check against it (scratch copy of /repo), write meta.json.
VERIF="$(cd "$(dirname "$0")/.." && pwd)"
cd "$VERIF"
IDS="$@"; [ -z "$IDS" ] && IDS=$(ls seeded | grep "^C")
for id in $IDS; do
  D="$VERIF/seeded/$id"; P="${id%%-*}"
  ver="$(tools/verify_mutant.sh "$D" 2>&1 | head -1)"
  out="/tmp/seedres/$id"; rm -rf "$out"; mkdir -p "$out"
  line="$(tools/try_mutant.sh "$D/patch.diff" "$out" "$P" 2>&1 | head -1)"
  rc=$(echo "$line" | sed -n 's/.*exit=\([0-9]*\).*/\1/p')
  sigs=$(grep 'signature:' "$out/$P.log" | sed 's/.*signature: //' | sort -u | head -6 | python3 -c 'import sys,json; print(json.dumps([l.strip() for l in sys.stdin]))')
  other=""
  if [ "$rc" != "1" ]; then
    # not caught by its own property's check: does another claimed check catch it?
    for Q in C15 C16 C14 C17 C18 C20; do
      [ "$Q" = "$P" ] && continue
      l2="$(tools/try_mutant.sh "$D/patch.diff" "$out" "$Q" 2>&1 | head -1)"
      if echo "$l2" | grep -q "exit=1"; then other="$Q: $(grep 'signature:' "$out/$Q.log" | sed 's/.*signature: //' | sort -u | head -2 | tr '\n' ';')"; break; fi
    done
  fi
  export OTHER="$other"
  python3 - "$D" "$P" "$ver" "$rc" "$sigs" <<'PY'
import json,sys,os
d,p,ver,rc,sigs=sys.argv[1:6]
am={}
try: am=json.load(open(os.path.join(d,'agent_meta.json')))
except Exception: pass
meta={"property":p,"breaks":am.get("mechanism",""),"needs_to_manifest":am.get("needs",""),"files":am.get("files",[]),
 "what_i_ran":["tools/verify_mutant.sh "+d+"  ->  "+ver,"tools/try_mutant.sh "+d+"/patch.diff <out> "+p+"  (quick tier of ./check "+p+" against a scratch copy of /repo with the patch applied)"],
 "confirmed":ver.startswith("CONFIRMED"),"check_exit":int(rc) if rc else None,"detected":rc=="1","signatures":json.loads(sigs),
 "detected_by_other_check":os.environ.get("OTHER","")}
json.dump(meta,open(os.path.join(d,'meta.json'),'w'),indent=1)
print(d, "confirmed" if meta["confirmed"] else "NOT-CONFIRMED", "exit="+str(rc), meta["signatures"][:2], meta["detected_by_other_check"])
PY
  rm -rf "$out"
done
