package sim

import (
	"encoding/json"
	"fmt"
	"hash/fnv"
	"os"
	"sort"

	"github.com/textwire/textwire/v2/simrt"
)

// Replica is the set of environment choices of one execution of a C14 scenario.
type Replica struct {
	Mode    string            `json:"mode"` // canonical reverse rotate random native
	Seed    uint64            `json:"seed,omitempty"`
	Rot     int               `json:"rot,omitempty"`
	PerSite map[string]string `json:"persite,omitempty"` // site name -> mode
	Sched   uint64            `json:"sched,omitempty"`   // seed of the scheduling policy for goroutines the code under test starts itself (0 = canonical)
	Preempt int               `json:"preempt,omitempty"` // percent chance of a preemption at a shared site while such goroutines are alive
	Procs   int               `json:"procs,omitempty"`   // what runtime.GOMAXPROCS(0) / NumCPU() report (0 = 2)
	History bool              `json:"history,omitempty"` // run a prelude in the same process first: an older version of the tree loaded and rendered, failing renders, string evaluations
	Soak    int               `json:"soak,omitempty"`    // with History: the prelude ends with this many repetitions of operations that panic inside textwire (the caller recovers, as net/http does) and of ordinary ones
	Rate    int64             `json:"rate,omitempty"`    // simulated nanoseconds per step (0 = 1000): a slower or faster machine
	MTime   uint64            `json:"mtime,omitempty"`   // seed of the modification times the disk reports (0 = all files the same instant)
	Clock   int64             `json:"clock"`             // unix seconds of the simulated clock base
	Rand    int64             `json:"rand"`              // seed of the simulated global math/rand stream
}

// FSFault is a dynamic file-system fault.
type FSFault struct {
	Kind  string `json:"kind"` // failop vanish
	Op    int    `json:"op,omitempty"`
	Errno string `json:"errno,omitempty"`
	Path  string `json:"path,omitempty"`
}

// Scenario is one complete, replayable simulated execution: everything the
// simulator decided is written here, nothing is re-drawn on replay.
type Scenario struct {
	Prop     string          `json:"property"`
	Seed     uint64          `json:"verif_seed"`
	Run      int             `json:"run"`
	Family   string          `json:"family,omitempty"`
	Cwd      string          `json:"cwd"`
	Files    []File          `json:"files,omitempty"`
	Setup    []Op            `json:"setup,omitempty"`
	Ops      []Op            `json:"ops,omitempty"`
	Tasks    [][]Op          `json:"tasks,omitempty"`
	Plan     []simrt.Preempt `json:"plan,omitempty"`
	First    int             `json:"first,omitempty"`
	EndCh    []int           `json:"endchoice,omitempty"`
	Quantum  int64           `json:"quantum,omitempty"` // C15: round-robin time slice in steps (0 = run to completion unless preempted)
	NoFD     bool            `json:"nofd,omitempty"`    // C15: during the concurrent phase the process is out of file descriptors
	Replicas []Replica       `json:"replicas,omitempty"`
	FSFaults []FSFault       `json:"fsfaults,omitempty"`
	Parts    []string        `json:"parts,omitempty"` // string scenarios: top-level pieces of Ops[0].Src
	C18      *C18Expect      `json:"c18,omitempty"`
	Prior    []*Scenario     `json:"prior,omitempty"` // C17 chained cells: executed first, in the same process, without reset
	Note     string          `json:"note,omitempty"`
	Extra    map[string]any  `json:"extra,omitempty"`
}

func (s *Scenario) Clone() *Scenario {
	b, _ := json.Marshal(s)
	var c Scenario
	json.Unmarshal(b, &c)
	return &c
}

func (s *Scenario) Hash() uint64 {
	c := *s
	c.Seed, c.Run = 0, 0
	b, _ := json.Marshal(&c)
	h := fnv.New64a()
	h.Write(b)
	return h.Sum64()
}

// LoadScenarioFromReplay reads the scenario of a replay file.
func LoadScenarioFromReplay(path string) (*Scenario, error) {
	b, err := os.ReadFile(path)
	if err != nil {
		return nil, err
	}
	var rf struct {
		Scenario *Scenario `json:"scenario"`
	}
	if err := json.Unmarshal(b, &rf); err != nil {
		return nil, err
	}
	if rf.Scenario == nil {
		return nil, fmt.Errorf("no scenario in %s", path)
	}
	return rf.Scenario, nil
}

// Violation is a failed check together with its minimised, replayable scenario.
type Violation struct {
	Prop     string    `json:"property"`
	Clause   string    `json:"clause"`
	Sig      string    `json:"signature"`
	Detail   string    `json:"detail"`
	Expected string    `json:"expected,omitempty"`
	Got      string    `json:"got,omitempty"`
	Scenario *Scenario `json:"scenario"`
	Unseamed bool      `json:"unseamed,omitempty"`
}

// Acc accumulates coverage measurements of a batch of runs.
type Acc struct {
	Prop         string           `json:"property"`
	Runs         int              `json:"runs"`
	Evals        int64            `json:"evaluations"`
	Steps        int64            `json:"sim_steps"`
	Distinct     map[uint64]bool  `json:"-"`
	DistinctList []uint64         `json:"distinct"`
	Samples      []any            `json:"samples"`
	Probes       map[string]int64 `json:"probes"`
	Faults       map[string]int64 `json:"faults"`
	Hashes       map[int]uint64   `json:"run_hashes"` // run index -> event-log hash (determinism self-check)
	ObsHash      map[int]uint64   `json:"obs_hashes"` // C14: run index -> hash of the canonical replica's observations (cross-process comparison)
	Viol         []*Violation     `json:"violations"`
	Trouble      []string         `json:"trouble"`
}

func NewAcc(prop string) *Acc {
	return &Acc{Prop: prop, Distinct: map[uint64]bool{}, Probes: map[string]int64{}, Faults: map[string]int64{}, Hashes: map[int]uint64{}, ObsHash: map[int]uint64{}}
}

func (a *Acc) Probe(name string, n int64) { a.Probes[name] += n }
func (a *Acc) Fault(name string, n int64) { a.Faults[name] += n }
func (a *Acc) Sample(v any) {
	if len(a.Samples) < 3 {
		a.Samples = append(a.Samples, v)
	}
}

func (a *Acc) Save(path string) error {
	a.DistinctList = a.DistinctList[:0]
	for h := range a.Distinct {
		a.DistinctList = append(a.DistinctList, h)
	}
	sort.Slice(a.DistinctList, func(i, j int) bool { return a.DistinctList[i] < a.DistinctList[j] })
	b, err := json.Marshal(a)
	if err != nil {
		return err
	}
	return os.WriteFile(path, b, 0o644)
}

func LoadAcc(path string) (*Acc, error) {
	b, err := os.ReadFile(path)
	if err != nil {
		return nil, err
	}
	a := NewAcc("")
	if err := json.Unmarshal(b, a); err != nil {
		return nil, err
	}
	for _, h := range a.DistinctList {
		a.Distinct[h] = true
	}
	return a, nil
}

func (a *Acc) Merge(b *Acc) {
	a.Runs += b.Runs
	a.Evals += b.Evals
	a.Steps += b.Steps
	for h := range b.Distinct {
		a.Distinct[h] = true
	}
	for _, s := range b.Samples {
		a.Sample(s)
	}
	for k, v := range b.Probes {
		a.Probes[k] += v
	}
	for k, v := range b.Faults {
		a.Faults[k] += v
	}
	for k, v := range b.Hashes {
		a.Hashes[k] = v
	}
	for k, v := range b.ObsHash {
		a.ObsHash[k] = v
	}
	a.Viol = append(a.Viol, b.Viol...)
	a.Trouble = append(a.Trouble, b.Trouble...)
}

// Property is one claimed property's generator + oracle + minimiser.
type Property interface {
	ID() string
	Level() string
	Runs(tier string) int
	// Run generates run number `run`, checks it, and returns a minimised violation or nil.
	Run(seed uint64, run int, tier string, acc *Acc) *Violation
	// Replay re-checks a stored scenario.
	Replay(sc *Scenario, acc *Acc) *Violation
	Rule() string
	Assumptions() []string
}

var Props = map[string]Property{}

func hashStr(h uint64, s string) uint64 {
	for i := 0; i < len(s); i++ {
		h = (h ^ uint64(s[i])) * 1099511628211
	}
	return h
}

func siteIDByName(name string) (int, bool) {
	for _, s := range simrt.Sites {
		if s.Name == name {
			return s.ID, true
		}
	}
	return 0, false
}

func modeOf(s string) simrt.OrderMode {
	switch s {
	case "native":
		return simrt.Native
	case "canonical", "":
		return simrt.Canonical
	case "reverse":
		return simrt.Reverse
	case "rotate":
		return simrt.Rotate
	case "random":
		return simrt.Random
	}
	panic(fmt.Sprintf("sim: unknown order mode %q", s))
}

// Policy converts a replica into the simrt order policy.
func (r Replica) Policy() *simrt.OrderPolicy {
	p := &simrt.OrderPolicy{Default: modeOf(r.Mode), Seed: r.Seed, Rot: r.Rot, PerSite: map[int]simrt.OrderMode{}}
	for name, m := range r.PerSite {
		if id, ok := siteIDByName(name); ok {
			p.PerSite[id] = modeOf(m)
		}
	}
	return p
}

var canonicalReplica = Replica{Mode: "canonical", Clock: 1_700_000_000, Rand: 1}

// pinSeams installs the canonical values of all seams (used by every check for
// the seams it does not vary itself).
func pinSeams() {
	simrt.SetSchedPolicy(&simrt.SchedPolicy{Procs: 2})
	simrt.SetOrder(canonicalReplica.Policy())
	simrt.SetClock(&simrt.Clock{Base: timeUnix(canonicalReplica.Clock)}, canonicalReplica.Rand)
}
