package sim

import (
	"fmt"
	"os"
	"sort"
	"strings"
	"time"

	"github.com/textwire/textwire/v2/simrt"
)

func timeUnix(s int64) time.Time { return time.Unix(s, 0).UTC() }

// C14 — rendering is deterministic. The seam varied is S1 (map iteration
// order) plus S6 (clock, global PRNG); everything else is identical between
// the replicas of one scenario.
type c14 struct{}

func init() { Props["C14"] = c14{} }

func (c14) ID() string    { return "C14" }
func (c14) Level() string { return "exploration" }
func (c14) Runs(tier string) int {
	if tier == "thorough" {
		return 1200000
	}
	return 12000
}
func (c14) Rule() string {
	return "scenarios (EvaluateString programs and NewTemplate+String trees, biased to many-key objects, @dump, several simultaneous faults) are generated from the seed; each is executed as R replicas that differ only in the simulator's choice of map-iteration order at every range site (canonical, reversed, rotated, seeded random permutations) and in clock base / PRNG stream, and all observations must be equal. evaluations = replica executions. A scenario is counted in distinct_nontrivial once (by content hash) if at least two different order vectors were actually applied to a range site with >= 2 keys while executing it."
}
func (c14) Assumptions() []string {
	return []string{
		"every map iteration of the instrumented packages goes through simrt.Keys / PermuteValues (twinstr refuses constructs it cannot seam; the native-order replicas look for escapes)",
		"any permutation of the keys is a legal Go iteration order, so each replica is an execution Go permits",
		"templates never call shuffle()/rand(), the only constructs the property exempts",
		"sampling: a clean batch is evidence, not proof",
	}
}

// ---- generation ---------------------------------------------------------------

func genReplicas(r *Rng, n int) []Replica {
	hist := canonicalReplica
	hist.History = true
	if r.Chance(5) {
		hist.Soak = 300
	}
	reps := []Replica{canonicalReplica, {Mode: "reverse", Clock: 1_500_000_123, Rand: 99, Sched: r.Uint64() | 1, Procs: 1, Preempt: 10, Rate: 20_000_000, MTime: r.Uint64() | 1}, hist}
	n++
	for i := 2; i < n; i++ {
		rep := Replica{Mode: "random", Seed: r.Uint64(), Clock: 1_600_000_000 + int64(r.Intn(1_000_000)), Rand: int64(r.Uint64() >> 1),
			Sched: r.Uint64() | 1, Procs: Pick(r, []int{1, 4, 16}), Preempt: Pick(r, []int{0, 20, 50}), Rate: Pick(r, []int64{0, 50, 300_000, 5_000_000}), MTime: r.Uint64() | 1}
		if i == 3 {
			rep.Mode, rep.Rot = "rotate", 1+r.Intn(3)
		}
		if i == 4 {
			rep.History = true
		}
		reps = append(reps, rep)
	}
	return reps
}

func genC14(r *Rng, tier string) *Scenario {
	sc := &Scenario{Prop: "C14", Cwd: "/srv/app"}
	nrep := 4
	if tier == "thorough" {
		nrep = 8
	}
	switch c := r.Intn(100); {
	case c < 4 && c >= 2:
		// renders WITHOUT data that read and assign top-level variables: whatever an earlier data-less
		// render of the process assigned must not be visible
		sc.Family = "nodata"
		sc.Parts = []string{"<p>{{ shared }}</p>"}
		sc.Ops = []Op{{Kind: "evalstr", Src: "<p>{{ shared }}</p>", Data: nil},
			{Kind: "evalstr", Src: `{{ title = "t" }}{{ status = "s" }}<i>{{ title }}{{ status }}</i>`, Data: nil},
			{Kind: "evalstr", Src: "{{ counter = 1 }}{{ counter++ }}{{ counter }}", Data: &Val{T: "map"}}}
	case c < 2:
		// the whole built-in function table; the history replica has called every function before
		sc.Family = "builtins"
		sc.Parts = []string{BuiltinSweepSrc}
		if r.Chance(50) {
			sc.Parts = append(sc.Parts, "{{ "+(&Gen{R: r, Prefix: "BS", AllFuncs: true}).Expr("str", 3)+" }}")
		}
		sc.Ops = []Op{{Kind: "evalstr", Src: strings.Join(sc.Parts, ""), Data: BuiltinSweepData()}}
	case c < 45:
		sc.Family = "string"
		g := &Gen{R: r, Prefix: "ST", ObjBias: 60, FailBias: 0, ObjFail: true, AllFuncs: r.Chance(50)}
		if r.Chance(40) {
			g.FailBias = 45
		}
		data := g.GenData()
		n := r.Range(1, 5)
		for i := 0; i < n; i++ {
			var p string
			switch k := r.Intn(10); {
			case k < 3:
				p = "{{ " + g.Expr("obj", 2) + " }}"
			case k < 5:
				p = "@dump(" + g.Expr("obj", 2) + ")"
			case k < 6:
				p = "{{ [" + g.Expr("obj", 1) + ", " + g.Expr("obj", 1) + "] }}"
			case k < 7:
				// shuffle() and rand() may vary, but only THEIR results: the receiver and everything
				// else must not
				p = Pick(r, []string{"{{ a0.shuffle().len() }}{{ a0 }}{{ a0.join('-') }}", "{{ a1.shuffle().len() }}@each(x in a1)[{{ x }}]@end", "{{ (a0.rand() == a0.rand()) ? 7 : 7 }}{{ a0 }}", "{{ t9 = [5, 6, 7, 8] }}{{ t9.shuffle().len() }}{{ t9 }}"})
			case k < 8 && g.FailBias > 0:
				p = "{{ " + g.FailExpr() + " }}"
			case k < 9 && r.Chance(30):
				// an all-literal object whose entries are prefix operators on literals of the wrong type
				p = Pick(r, []string{`{{ {a: 1, width: -"10", hidden: !"no", s: "x"} }}`, `{{ {k: -true, m: !1, z: -"s", n: 2} }}`, `@dump({p: !"a", q: -"b", r: -false})`})
			case k < 9 && r.Chance(25):
				// inputs on which the pinned evaluator panics (integer % 0, dot on a non-object, @each over
				// a string): whatever the caller sees, it must be the same in every replica
				p = "<p>before</p>" + Pick(r, []string{"{{ 7 % z0 }}", `{{ "a".x }}`, "{{ n1.y }}", "@each(x in s0){{ x }}@end"})
			case k < 9 && r.Chance(30):
				// objects whose keys differ only in case, read through a spelling that is none of them
				p = Pick(r, []string{`{{ {ETag: "first", ETAG: "second", x: 1}.etag }}`, `{{ {Id: 1, ID: 2, iD: 3, z: 0}.id }}`,
					`{{ o = {Name: "n1", NAME: "n2", nAME: "n3", name_: 4} }}{{ o.name }}`, `@each(row in [{Url: 1, URL: 2}, {URL: 3, Url: 4}]){{ row.url }}@end`}) + g.CaseVariantRead()
			case k < 9 && r.Chance(10):
				// a loop long enough for anything that watches the clock
				p = "@for(i = 0; i < 2600; i++).@end<i>done</i>"
			default:
				p = g.Stmt(2)
			}
			sc.Parts = append(sc.Parts, p)
		}
		sc.Ops = []Op{{Kind: "evalstr", Src: strings.Join(sc.Parts, ""), Data: data}}
		if r.Chance(25) {
			// the string API reads the process-wide configuration: evaluate with debug mode on
			sc.Files = []File{{Path: "/srv/app/templates/only.tw", Data: "<p>only</p>", Role: "page"}}
			sc.Ops = append([]Op{{Kind: "newtemplate", Cfg: &Cfg{Dir: "templates", Ext: ".tw", Debug: true}}}, sc.Ops...)
		}
	case c < 55:
		// data maps with several unsupported values / the reserved name
		sc.Family = "baddata"
		g := &Gen{R: r, Prefix: "BD", AllFuncs: true}
		data := g.GenData()
		bad := []struct {
			k string
			v Val
		}{{"c1", Val{T: "chan"}}, {"fn1", Val{T: "func"}}, {"loop", VInt(1)}, {"cx", Val{T: "complex", F: 1}}, {"c2", Val{T: "chan"}}}
		nb := r.Range(2, 4)
		for i := 0; i < nb; i++ {
			b := bad[(i+r.Intn(len(bad)))%len(bad)]
			dup := false
			for _, k := range data.K {
				if k == b.k {
					dup = true
				}
			}
			if !dup {
				data.K = append(data.K, b.k)
				data.V = append(data.V, b.v)
			}
		}
		if r.Chance(50) {
			// ... and a NESTED map that holds several values of different unsupported types
			data.K = append(data.K, "nestedbad")
			data.V = append(data.V, VMap([]string{"a", "b", "c", "d", "ok"}, []Val{{T: "chan"}, {T: "func"}, {T: "complex", F: 2}, {T: "chan"}, VInt(1)}))
			if r.Chance(50) {
				// only nested ones: the top level is fine
				nd := &Val{T: "map"}
				for i, k := range data.K {
					if t := data.V[i].T; (t != "chan" && t != "func" && t != "complex" && k != "loop") || k == "nestedbad" {
						nd.K = append(nd.K, k)
						nd.V = append(nd.V, data.V[i])
					}
				}
				data = nd
			}
		}
		sc.Parts = []string{"<p>x</p>", "{{ n1 }}"}
		sc.Ops = []Op{{Kind: "evalstr", Src: strings.Join(sc.Parts, ""), Data: data}}
	default:
		sc.Family = "tree"
		o := TreeOpts{ObjBias: 50, Debug: r.Chance(50), ObjFail: true, ArgClash: r.Chance(30)}
		if r.Chance(2) {
			o.Pages = 40 // more files than any worker pool has workers
		}
		if r.Chance(30) {
			o.FailBias = 40
		}
		t := GenTree(r, o)
		sc.Cwd = t.Cwd
		sc.Files = t.Clean()
		fault := r.Intn(100)
		addPage := func(name, src string) {
			sc.Files = append(sc.Files, File{Path: t.path(name), Data: src, Role: "page"})
		}
		switch {
		case fault < 15:
			sc.Family = "tree-undef-inserts"
			n := r.Range(2, 4)
			src := `@use("layouts/main")` + "\n"
			sameLine := r.Chance(50)
			for i := 0; i < n; i++ {
				src += fmt.Sprintf("@insert(\"nope%d\", \"v%d\")", i, i)
				if sameLine {
					src += " " // several undefined inserts on ONE line: a sort by line leaves them tied
					continue
				}
				src += "\n"
				if r.Chance(50) {
					src += "\n\n"
				}
			}
			addPage("zbad", src)
		case fault < 30:
			sc.Family = "tree-dup-slots"
			src := `@component("components/card", {title: "x", n: 1})` + "\n"
			names := []string{"", "foot"}
			for rep := 0; rep < 2; rep++ {
				for _, s := range names {
					if s == "" {
						src += "@slot<p>d</p>@end\n"
					} else {
						src += `@slot("` + s + `")<p>f</p>@end` + "\n"
					}
				}
			}
			if r.Chance(50) {
				src += "@slot<p>third</p>@end\n"
			}
			src += "@end\n"
			addPage("zdup", src)
		case fault < 50:
			sc.Family = "tree-multi-bad-files"
			n := r.Range(2, 4)
			bads := []string{"<p>{{ 1 + }}</p>", "{{ ) }}", "line1\nline2\n{{ n1 n2 }}", "@if(true)x@end{{ }}", "\n\n{{ 5 5 }}"}
			for i := 0; i < n; i++ {
				addPage(fmt.Sprintf("bad%d", i), bads[(i+r.Intn(len(bads)))%len(bads)])
			}
		}
		sc.Ops = append(sc.Ops, t.LoadOp())
		for _, p := range t.Pages {
			sc.Ops = append(sc.Ops, Op{Kind: "string", Name: p, Data: t.Data})
		}
		if r.Chance(25) && len(t.Pages) > 0 {
			// two template files whose names differ only in case, and renders through further spellings
			p := t.Pages[r.Intn(len(t.Pages))]
			dir, base := "", p
			if i := strings.LastIndex(p, "/"); i >= 0 {
				dir, base = p[:i+1], p[i+1:]
			}
			twin := dir + strings.ToUpper(base[:1]) + base[1:]
			addPage(twin, "<p>case twin of "+p+"</p>")
			for _, n := range []string{dir + strings.ToUpper(base), strings.ToUpper(p), twin, p} {
				sc.Ops = append(sc.Ops, Op{Kind: "string", Name: n, Data: t.Data})
			}
		}
	}
	sc.Replicas = genReplicas(r, nrep)
	return sc
}

// ---- execution ------------------------------------------------------------------

type c14Exec struct {
	obs   []Obs
	hash  uint64 // order vector hash
	steps int64
	multi map[int]bool // range sites executed with >= 2 keys
}

func execC14(sc *Scenario, rep Replica) c14Exec {
	w := NewWorld(sc.Cwd, sc.Files)
	before := map[int]int64{}
	for id, st := range simrt.OrderStats() {
		before[id] = st.Multi
	}
	simrt.SetOrder(rep.Policy())
	simrt.SetClock(&simrt.Clock{Base: timeUnix(rep.Clock), Rate: rep.Rate}, rep.Rand)
	simrt.MTimeSeed = rep.MTime
	defer func() { simrt.MTimeSeed = 0 }()
	procs := rep.Procs
	if procs == 0 {
		procs = 2
	}
	simrt.SetSchedPolicy(&simrt.SchedPolicy{Seed: rep.Sched, PreemptPct: rep.Preempt, Procs: procs})
	if rep.History {
		c14Prelude(w, sc, rep.Soak)
	}
	var ex c14Exec
	ex.multi = map[int]bool{}
	// the step ceiling scales with the amount of source text (a tree of 40 pages is legitimate)
	var Budget int64 = Budget
	for _, f := range sc.Files {
		Budget += 300 * int64(len(f.Data))
	}
	for oi, op := range sc.Ops {
		o := w.RunOp(op, Budget)
		ex.obs = append(ex.obs, o)
		ex.steps += o.Steps
		if rep.History && op.Kind == "newtemplate" && o.Kind == "ok" {
			// earlier requests on THIS Template too: every page the scenario is going to render has
			// been rendered before, with somebody else's values, with the data in its other native
			// representation, and without data
			for _, later := range sc.Ops[oi+1:] {
				if later.Kind != "string" {
					continue
				}
				if later.Data != nil {
					w.RunOp(Op{Kind: "string", Name: later.Name, Data: otherValues(later.Data)}, Budget)
					w.RunOp(Op{Kind: "string", Name: later.Name, Data: AltData(later.Data)}, Budget)
				}
				w.RunOp(Op{Kind: "response", Name: later.Name, Data: nil}, Budget)
			}
		}
	}
	if os.Getenv("TWSIM_DEBUG") != "" {
		for i, o := range ex.obs {
			fmt.Fprintf(os.Stderr, "debug: replica %+v op %d steps=%d clockreads=%d: %s\n", rep, i, o.Steps, simrt.ClockReads(), o.Short())
		}
	}
	ex.hash = simrt.OrderHash
	logEvent(fmt.Sprint("order", ex.hash))
	for id, st := range simrt.OrderStats() {
		if st.Multi > before[id] {
			ex.multi[id] = true
		}
	}
	simrt.SetOrder(nil)
	simrt.SetClock(nil, 0)
	return ex
}

// c14Prelude is the "earlier life of the process": an older version of the
// same tree (every file's content differs) is put on the disk, loaded and
// rendered, with failing renders and string evaluations that fail after
// producing output; then the disk is replaced by the scenario's files. Nothing
// is reset in between, so anything the code under test remembers across loads
// or renders (caches, pooled buffers) can influence the scenario's own
// operations — which the property forbids.
func c14Prelude(w *World, sc *Scenario, soak int) {
	var old []File
	for _, f := range sc.Files {
		g := f
		if g.Kind == "" {
			g.Data = "<!--OLDVERSION-->" + g.Data + "<i>old tail</i>"
		}
		old = append(old, g)
	}
	oldFS := BuildFS(sc.Cwd, old)
	simrt.SetFS(oldFS)
	pw := &World{FS: oldFS, Rec: w.Rec}
	// other struct types that print the same type name as the one in the scenario's data, first
	for _, k := range []int64{2, 0, 1} {
		pw.RunOp(Op{Kind: "evalstr", Src: "{{ r0 }}{{ r0.num }}", Data: &Val{T: "map", K: []string{"r0"}, V: []Val{{T: "named", I: k}}}}, Budget)
	}
	for _, op := range sc.Ops {
		switch op.Kind {
		case "newtemplate":
			pw.RunOp(op, Budget)
		case "string":
			pw.RunOp(op, Budget)
			pw.RunOp(Op{Kind: "string", Name: op.Name, Data: nil}, Budget)
			pw.RunOp(Op{Kind: "response", Name: op.Name, Data: nil}, Budget)
			if op.Data != nil {
				// the same page with the data in its other native representation (structs for maps and
				// back) and with other values: what an earlier request of another user looked like
				pw.RunOp(Op{Kind: "string", Name: op.Name, Data: AltData(op.Data)}, Budget)
				pw.RunOp(Op{Kind: "string", Name: op.Name, Data: otherValues(op.Data)}, Budget)
			}
		case "evalstr":
			pw.RunOp(op, Budget)
		}
	}
	pw.RunOp(Op{Kind: "evalstr", Src: "<p>before</p>@each(x in [2, 1, 0])<li>{{ 10 / x }}</li>@end", Data: nil}, Budget)
	pw.RunOp(Op{Kind: "evalstr", Src: "<h1>partial output</h1>{{ undefinedInPrelude }}", Data: nil}, Budget)
	pw.RunOp(Op{Kind: "evalstr", Src: "{{ shared = 41 }}{{ title = 7 }}{{ status = 200 }}{{ counter = 5.5 }}{{ shared }}", Data: nil}, Budget)
	pw.RunOp(Op{Kind: "evalstr", Src: "{{ shared = 42 }}{{ counter = [1] }}", Data: &Val{T: "map"}}, Budget)
	pw.RunOp(Op{Kind: "evalstr", Src: "@for(i = 0; i < 3; i++)[{{ 6 / (1 - i) }}]@end", Data: nil}, Budget)
	if soak > 0 {
		// a long earlier life: hundreds of requests that panicked inside textwire and were recovered by
		// the caller (what net/http does per request), and hundreds of ordinary ones. Anything that counts
		// calls, or that is acquired on entry and not released on the panic path, has run out by now.
		nilData := &Val{T: "map", K: []string{"z", "u"}, V: []Val{VInt(0), VMap([]string{"inner"}, []Val{{T: "nilptr"}})}}
		page := ""
		for _, op := range sc.Ops {
			if op.Kind == "string" {
				page = op.Name
				break
			}
		}
		for i := 0; i < soak; i++ {
			pw.RunOp(Op{Kind: "evalstr", Src: "<p>{{ 7 % z }}</p>", Data: nilData}, Budget)
			pw.RunOp(Op{Kind: "evalstr", Src: `{{ "a".x }}`, Data: nil}, Budget)
			pw.RunOp(Op{Kind: "evalstr", Src: "{{ 1 + 1 }}", Data: nil}, Budget)
			if page != "" {
				pw.RunOp(Op{Kind: "string", Name: page, Data: nilData}, Budget)
				pw.RunOp(Op{Kind: "response", Name: page, Data: nilData}, Budget)
				pw.RunOp(Op{Kind: "string", Name: page, Data: nil}, Budget)
			}
		}
	}
	simrt.SetFS(w.FS)
}

// otherValues returns the same data with other scalar values (and objects reduced to their
// capitalised keys): an earlier request with somebody else's data.
func otherValues(d *Val) *Val {
	out := &Val{T: d.T, K: append([]string{}, d.K...)}
	for _, v := range d.V {
		switch v.T {
		case "int":
			v = VInt(int(v.I) + 41)
		case "str":
			v = VStr(v.S + "~other")
		case "float":
			v = VFloat(v.F + 0.625)
		case "bool":
			v = VBool(!v.B)
		case "map":
			nv := Val{T: "map"}
			for i, k := range v.K {
				if k != "" && k[0] >= 'A' && k[0] <= 'Z' {
					nv.K = append(nv.K, k)
					nv.V = append(nv.V, v.V[i])
				}
			}
			if len(nv.K) > 0 {
				v = nv
			}
		}
		out.V = append(out.V, v)
	}
	return out
}

func firstDiff(a, b []Obs) int {
	for i := range a {
		if i >= len(b) || a[i].Key() != b[i].Key() {
			return i
		}
	}
	if len(b) > len(a) {
		return len(a)
	}
	return -1
}

func diffField(a, b Obs) string {
	switch {
	case a.Kind != b.Kind:
		return "kind"
	case a.Out != b.Out:
		return "output"
	case a.Msg != b.Msg || a.Err != b.Err:
		return "error"
	case a.Path != b.Path:
		return "path"
	case a.Line != b.Line:
		return "line"
	}
	return "other"
}

func (p c14) check(sc *Scenario, acc *Acc, minimise bool) *Violation {
	base := execC14(sc, sc.Replicas[0])
	oh := uint64(1469598103934665603)
	for _, o := range base.obs {
		oh = hashStr(oh, o.Key())
	}
	acc.ObsHash[sc.Run] = oh
	for _, o := range base.obs {
		if o.Kind == "abort" && strings.Contains(o.Err, "step budget") {
			// the canonical execution did not finish within the simulator's own ceiling: nothing that
			// happens after that point (tasks being unwound) is behaviour of the code under test, so
			// there is nothing to compare. Hangs are C18's business, with budgets scaled for it.
			acc.Evals++
			acc.Probe("scenarios-skipped-canonical-run-exceeds-step-budget", 1)
			return nil
		}
	}
	hashes := map[uint64]bool{base.hash: true}
	anyMulti := len(base.multi) > 0
	acc.Evals++
	acc.Steps += base.steps
	var viol *Violation
	for ri := 1; ri < len(sc.Replicas); ri++ {
		ex := execC14(sc, sc.Replicas[ri])
		acc.Evals++
		acc.Steps += ex.steps
		hashes[ex.hash] = true
		acc.Fault("map-order-"+sc.Replicas[ri].Mode, 1)
		if sc.Replicas[ri].History {
			acc.Fault("prior-history-in-same-process", 1)
			if sc.Replicas[ri].Soak > 0 {
				acc.Fault("long-prior-history-with-recovered-panics", 1)
			}
		}
		if sc.Replicas[ri].Sched != 0 {
			acc.Fault("goroutine-schedule-policy", 1)
		}
		if sc.Replicas[ri].Clock != canonicalReplica.Clock {
			acc.Fault("clock-base-and-prng-stream", 1)
		}
		if d := firstDiff(base.obs, ex.obs); d >= 0 && viol == nil {
			viol = &Violation{Prop: "C14", Clause: "replicas that differ only in map iteration order / clock / PRNG stream observe different results",
				Detail:   fmt.Sprintf("op %d (%s): replica 0 (%s) vs replica %d (%s)", d, sc.Ops[d], sc.Replicas[0].Mode, ri, sc.Replicas[ri].Mode),
				Expected: base.obs[d].Short(), Got: ex.obs[d].Short()}
			if minimise {
				viol = p.minimise(sc, ri, d, viol)
			} else {
				viol.Scenario = sc
				viol.Sig = p.signature(sc, ri, d)
			}
		}
	}
	// every run converts a data map with >= 2 keys; that alone does not count
	nontrivial := sc.Family == "baddata"
	for id := range base.multi {
		n := simrt.SiteName(id)
		if !strings.Contains(n, "EnvFromMap") && !strings.Contains(n, "#mapkeys#") && !strings.HasPrefix(n, "token.") {
			nontrivial = true
		}
	}
	_ = anyMulti
	if nontrivial && len(hashes) >= 2 {
		acc.Distinct[sc.Hash()] = true
	}
	acc.Probe("scenarios/"+sc.Family, 1)
	for id := range base.multi {
		acc.Probe("range>=2keys@"+simrt.SiteName(id), 1)
	}
	if viol != nil {
		return viol
	}
	// escape layer: Go's native order, several repetitions; only meaningful when
	// the seam-controlled replicas agree.
	nat := Replica{Mode: "native", Clock: canonicalReplica.Clock, Rand: canonicalReplica.Rand}
	reps := 3
	// native-order executions are not schedule-controlled: keep them out of the
	// event log that the determinism self-check compares
	savedLog := EventLog
	defer func() { EventLog = savedLog }()
	for i := 0; i < reps; i++ {
		ex := execC14(sc, nat)
		acc.Evals++
		acc.Probe("native-replicas", 1)
		if d := firstDiff(base.obs, ex.obs); d >= 0 {
			// Is it an order the seam can produce? Then it is an ordinary
			// order violation that the few fixed replicas happened to miss.
			rs := NewRng(sc.Hash() ^ 0x5eed)
			for k := 0; k < 48; k++ {
				rep := Replica{Mode: "random", Seed: rs.Uint64(), Clock: canonicalReplica.Clock, Rand: canonicalReplica.Rand}
				ex2 := execC14(sc, rep)
				acc.Evals++
				if d2 := firstDiff(base.obs, ex2.obs); d2 >= 0 {
					s2 := sc.Clone()
					s2.Replicas = append(s2.Replicas, rep)
					v := &Violation{Prop: "C14", Clause: "replicas that differ only in map iteration order / clock / PRNG stream observe different results",
						Detail: fmt.Sprintf("op %d (%s): found after a native-order repetition diverged", d2, sc.Ops[d2]), Expected: base.obs[d2].Short(), Got: ex2.obs[d2].Short()}
					if minimise {
						return p.minimise(s2, len(s2.Replicas)-1, d2, v)
					}
					v.Scenario, v.Sig = s2, p.signature(s2, len(s2.Replicas)-1, d2)
					return v
				}
			}
			s := sc.Clone()
			s.Replicas = []Replica{sc.Replicas[0], nat}
			return &Violation{Prop: "C14", Clause: "nondeterminism escaped the seams: native-order repetition differs from the canonical replica",
				Sig: "unseamed:" + sc.Family + ":" + diffField(base.obs[d], ex.obs[d]), Unseamed: true, Scenario: s,
				Detail:   fmt.Sprintf("op %d (%s); replay is statistical, not exact", d, sc.Ops[d]),
				Expected: base.obs[d].Short(), Got: ex.obs[d].Short()}
		}
	}
	return nil
}

// diverges reports whether replica rep differs from the canonical replica.
func c14Diverges(sc *Scenario, rep Replica) (int, Obs, Obs, map[int]bool) {
	a := execC14(sc, sc.Replicas[0])
	b := execC14(sc, rep)
	d := firstDiff(a.obs, b.obs)
	if d < 0 {
		return -1, Obs{}, Obs{}, b.multi
	}
	var ob Obs
	if d < len(b.obs) {
		ob = b.obs[d]
	}
	return d, a.obs[d], ob, b.multi
}

// singleSite looks for one range site whose order alone explains the divergence.
func c14SingleSite(sc *Scenario, rep Replica) (string, Replica, bool) {
	_, _, _, multi := c14Diverges(sc, rep)
	var names []string
	for id := range multi {
		names = append(names, simrt.SiteName(id))
	}
	sort.Strings(names)
	for _, n := range names {
		for _, mode := range []string{"reverse", rep.Mode} {
			cand := Replica{Mode: "canonical", Seed: rep.Seed, Rot: rep.Rot, PerSite: map[string]string{n: mode}, Clock: canonicalReplica.Clock, Rand: canonicalReplica.Rand}
			if d, _, _, _ := c14Diverges(sc, cand); d >= 0 {
				return n, cand, true
			}
		}
	}
	return "", rep, false
}

func (p c14) signature(sc *Scenario, ri, d int) string {
	if dd, _, _, _ := c14Diverges(sc, canonicalReplica); dd >= 0 {
		return "differs-between-identical-executions:" + sc.Family
	}
	if rep := sc.Replicas[ri]; rep.Sched != 0 {
		scand := canonicalReplica
		scand.Sched, scand.Procs, scand.Preempt = rep.Sched, rep.Procs, rep.Preempt
		if dd, _, _, _ := c14Diverges(sc, scand); dd >= 0 {
			return "goroutine-schedule:" + sc.Family
		}
	}
	if sc.Replicas[ri].History {
		hcand := canonicalReplica
		hcand.History, hcand.Soak = true, sc.Replicas[ri].Soak
		if dd, _, _, _ := c14Diverges(sc, hcand); dd >= 0 {
			if hcand.Soak > 0 {
				return "earlier-history-long:" + sc.Family
			}
			return "earlier-history:" + sc.Family
		}
	}
	if rep := sc.Replicas[ri]; rep.Mode == "canonical" && len(rep.PerSite) == 1 {
		// a minimised scenario: the replica already differs from the canonical one in one site only
		for n := range rep.PerSite {
			return "order@" + n
		}
	}
	site, _, ok := c14SingleSite(sc, sc.Replicas[ri])
	if ok {
		return "order@" + site
	}
	// clock / PRNG?
	rep := sc.Replicas[ri]
	cand := canonicalReplica
	cand.Clock, cand.Rand, cand.Rate = rep.Clock, rep.Rand, rep.Rate
	if dd, _, _, _ := c14Diverges(sc, cand); dd >= 0 {
		return "clock-or-prng"
	}
	mc := canonicalReplica
	mc.MTime = rep.MTime
	if dd, _, _, _ := c14Diverges(sc, mc); dd >= 0 {
		return "file-modification-times"
	}
	return "order@multiple-sites"
}

func (p c14) minimise(orig *Scenario, ri, d int, v *Violation) *Violation {
	sc := orig.Clone()
	rep := sc.Replicas[ri]
	sc.Replicas = []Replica{sc.Replicas[0], rep}
	sig := ""
	// 1. explain by earlier history alone, by clock/PRNG alone, or by a single site
	cand := canonicalReplica
	cand.Clock, cand.Rand, cand.Rate = rep.Clock, rep.Rand, rep.Rate
	hcand := canonicalReplica
	hcand.History, hcand.Soak = true, rep.Soak
	scand := canonicalReplica
	scand.Sched, scand.Procs, scand.Preempt = rep.Sched, rep.Procs, rep.Preempt
	mcand := canonicalReplica
	mcand.MTime = rep.MTime
	if dd, _, _, _ := c14Diverges(sc, canonicalReplica); dd >= 0 {
		// two executions under IDENTICAL seams differ: something outside the seams (addresses,
		// allocation state) reaches the output
		sig = "differs-between-identical-executions:" + sc.Family
		sc.Replicas[1] = canonicalReplica
	} else if dd, _, _, _ := c14Diverges(sc, scand); rep.Sched != 0 && dd >= 0 {
		sig = "goroutine-schedule:" + sc.Family
		sc.Replicas[1] = scand
	} else if dd, a, b, _ := c14Diverges(sc, hcand); rep.History && dd >= 0 {
		_, _ = a, b
		sig = "earlier-history:" + sc.Family
		if rep.Soak > 0 {
			// try to explain it by the short prelude first
			short := hcand
			short.Soak = 0
			if d2, _, _, _ := c14Diverges(sc, short); d2 >= 0 {
				hcand = short
			} else {
				sig = "earlier-history-long:" + sc.Family
			}
		}
		sc.Replicas[1] = hcand
	} else if dd, _, _, _ := c14Diverges(sc, mcand); rep.MTime != 0 && dd >= 0 {
		sig = "file-modification-times"
		sc.Replicas[1] = mcand
	} else if dd, _, _, _ := c14Diverges(sc, cand); dd >= 0 {
		sig = "clock-or-prng"
		sc.Replicas[1] = cand
	} else if site, r1, ok := c14SingleSite(sc, rep); ok {
		sig = "order@" + site
		sc.Replicas[1] = r1
	} else {
		sig = "order@multiple-sites"
	}
	still := func(s *Scenario) bool {
		dd, _, _, _ := c14Diverges(s, s.Replicas[1])
		return dd >= 0
	}
	// 2. drop operations (keep loads)
	for i := len(sc.Ops) - 1; i >= 0; i-- {
		if len(sc.Ops) == 1 {
			break
		}
		t := sc.Clone()
		t.Ops = append(append([]Op{}, sc.Ops[:i]...), sc.Ops[i+1:]...)
		if still(t) {
			sc = t
		}
	}
	// 3. string scenarios: drop parts
	if last := len(sc.Ops) - 1; len(sc.Parts) > 1 && last >= 0 && sc.Ops[last].Kind == "evalstr" {
		for i := len(sc.Parts) - 1; i >= 0 && len(sc.Parts) > 1; i-- {
			t := sc.Clone()
			t.Parts = append(append([]string{}, sc.Parts[:i]...), sc.Parts[i+1:]...)
			t.Ops[last].Src = strings.Join(t.Parts, "")
			if still(t) {
				sc = t
			}
		}
	}
	// 4. drop data keys
	for oi := range sc.Ops {
		if sc.Ops[oi].Data == nil {
			continue
		}
		for i := len(sc.Ops[oi].Data.K) - 1; i >= 0; i-- {
			t := sc.Clone()
			dv := t.Ops[oi].Data
			dv.K = append(dv.K[:i:i], dv.K[i+1:]...)
			dv.V = append(dv.V[:i:i], dv.V[i+1:]...)
			if still(t) {
				sc = t
			}
		}
	}
	// 5. drop files
	for i := len(sc.Files) - 1; i >= 0; i-- {
		t := sc.Clone()
		t.Files = append(append([]File{}, sc.Files[:i]...), sc.Files[i+1:]...)
		if still(t) {
			sc = t
		}
	}
	dd, a, b, _ := c14Diverges(sc, sc.Replicas[1])
	if dd < 0 {
		// minimisation must never lose the violation; fall back to the original
		v.Scenario, v.Sig = orig, sig
		return v
	}
	v.Scenario = sc
	v.Sig = sig
	v.Detail = fmt.Sprintf("op %d (%s): canonical order vs %s", dd, sc.Ops[dd], toJSON(sc.Replicas[1]))
	v.Expected, v.Got = a.Short(), b.Short()
	return v
}

func (p c14) Run(seed uint64, run int, tier string, acc *Acc) *Violation {
	r := NewRng(Mix(seed, "C14", run))
	sc := genC14(r, tier)
	sc.Seed, sc.Run = seed, run
	acc.Runs++
	if run%97 == 0 {
		acc.Sample(map[string]any{"family": sc.Family, "ops": opsSummary(sc.Ops), "replicas": sc.Replicas[:2]})
	}
	EventLog = sc.Hash()
	v := p.check(sc, acc, true)
	acc.Hashes[run] = EventLog
	return v
}

func (p c14) Replay(sc *Scenario, acc *Acc) *Violation {
	return p.check(sc, acc, false)
}

func opsSummary(ops []Op) []string {
	var out []string
	for _, o := range ops {
		s := o.String()
		if len(s) > 400 {
			s = s[:400] + "..."
		}
		out = append(out, s)
	}
	return out
}
