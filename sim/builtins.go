package sim

// BuiltinSweepSrc calls every function of textwire's built-in table on several
// receivers, several times each (the loops), and prints every result. It is an
// ordinary template: the checks that use it (C14 family "builtins", the
// "allfuncs" operation of C15/C16) only compare its observation between
// replicas / with the fresh-state baseline, so nothing about what the functions
// return is assumed here. shuffle() and rand() appear only where their result
// cannot show.
const BuiltinSweepSrc = `<ul>
@each(s in strs)<li>{{ s.len() }}|{{ s.split() }}|{{ s.split("a") }}|{{ s.raw() }}|{{ s.trim() }}|{{ s.trim("a") }}|{{ s.trimRight("a ") }}|{{ s.trimLeft("a ") }}|{{ s.upper() }}|{{ s.lower() }}|{{ s.capitalize() }}|{{ s.reverse() }}|{{ s.contains("a") }}|{{ s.truncate(3) }}|{{ s.truncate(2, "~") }}|{{ s.decimal() }}|{{ s.at(1) }}|{{ s.at(-1) }}|{{ s.first() }}|{{ s.last() }}|{{ s.repeat(2) }}</li>
@end
@each(n in ints)<li>{{ n.float() }}|{{ n.abs() }}|{{ n.str() }}|{{ n.len() }}|{{ n.decimal() }}|{{ n.decimal(",", 3) }}|{{ n % 3 }}|{{ -n }}</li>
@end
@each(f in floats)<li>{{ f.int() }}|{{ f.str() }}|{{ f.abs() }}|{{ f.ceil() }}|{{ f.floor() }}|{{ f.round() }}|{{ f * 2.5 }}</li>
@end
@each(b in bools)<li>{{ b.binary() }}|{{ b.then("y", "n") }}|{{ b.then(1) }}|{{ b ? "t" : "f" }}</li>
@end
@each(a in arrs)<li>{{ a.len() }}|{{ a.join() }}|{{ a.join("-") }}|{{ a.reverse() }}|{{ a.slice(1) }}|{{ a.slice(0, 2) }}|{{ a.contains(2) }}|{{ a.append(9) }}|{{ a.prepend(0, 1) }}|{{ a.shuffle().len() }}|{{ a.rand() ? 1 : 1 }}|{{ a }}</li>
@end
@for(i = 0; i < 7; i++){{ i.str().repeat(2).upper() }}{{ "ab cd".capitalize() }}{{ [3, 1, 2].reverse().join("") }}{{ 2.5.round() }}{{ (i > 3).binary() }}{{ i.decimal() }}@end
@dump(strs, ints, obj)
@dump(big, bigobj){{ big }}|{{ bigobj }}
{{ obj }}|{{ obj.k1 }}|{{ obj.nested.deep }}
</ul>`

// BuiltinSweepData is the data the sweep is rendered with.
func BuiltinSweepData() *Val {
	strs := VArr(VStr("alpha beta"), VStr("  padded a "), VStr(""), VStr("naïve café"), VStr("12"), VStr("a<b>&c"), VStr("Zed"), VStr("aaa"))
	ints := VArr(VInt(0), VInt(7), VInt(-12), VInt(1234567), VInt(5), VInt(10), VInt(-1))
	floats := VArr(VFloat(0.5), VFloat(-2.25), VFloat(3.0), VFloat(9.99), VFloat(1.5), VFloat(2.5), VFloat(-0.5))
	bools := VArr(VBool(true), VBool(false), VBool(true), VBool(true), VBool(false), VBool(false), VBool(true))
	arrs := VArr(VArr(VInt(1), VInt(2), VInt(3)), VArr(), VArr(VInt(2)), VArr(VInt(5), VInt(4), VInt(3), VInt(2), VInt(1)), VArr(VInt(1), VInt(1)), VArr(VInt(7), VInt(8)))
	obj := VMap([]string{"k1", "k2", "nested", "k0"}, []Val{VInt(1), VStr("two"), VMap([]string{"deep", "also"}, []Val{VStr("d"), VArr(VInt(1))}), VNil()})
	// collections larger than anything a "small" fast path would cover
	var bigElems, bigVals []Val
	var bigKeys []string
	for i := 0; i < 40; i++ {
		bigElems = append(bigElems, VInt(i*i))
		bigKeys = append(bigKeys, "key"+string(rune('a'+i%26))+string(rune('A'+i/26)))
		bigVals = append(bigVals, VStr("v"+string(rune('a'+i%26))))
	}
	d := VMap([]string{"strs", "ints", "floats", "bools", "arrs", "obj", "big", "bigobj"}, []Val{strs, ints, floats, bools, arrs, obj, VArr(bigElems...), VMap(bigKeys, bigVals)})
	return &d
}
