package sim

import (
	"flag"
	"fmt"
	"os"
	"path/filepath"
	"runtime"
	"strings"
	"sync"

	"github.com/textwire/textwire/v2/simrt"
)

// RaceMain is the -race companion of C15 (DESIGN §6 C15, oracle (b)): the same
// generated scenarios, but executed by REAL goroutines released from one
// barrier, on a real directory, with every seam in pass-through mode, in a
// binary built with the Go race detector. This layer is not schedule
// controlled: it is the race detector observing real threads. Its verdict is
// happens-before based, so with no synchronisation between the workers every
// conflicting pair of accesses that executes is reported irrespective of
// timing; its reports are not replayable bit for bit.
//
// exit 0: clean; 66: the race detector fired (GORACE exitcode); 3: a call
// returned something else than its sequential baseline; 2: trouble.
func RaceMain(args []string) int {
	fs := flag.NewFlagSet("race", flag.ExitOnError)
	seed := fs.Uint64("seed", 1, "")
	run := fs.Int("run", 0, "")
	dir := fs.String("dir", "", "scratch directory (real disk)")
	reps := fs.Int("reps", 100, "")
	goroutines := fs.Int("g", 8, "")
	file := fs.String("file", "", "replay: scenario file")
	fs.Parse(args)

	var sc *Scenario
	if *file != "" {
		var err error
		sc, err = LoadScenarioFromReplay(*file)
		if err != nil {
			fmt.Fprintln(os.Stderr, "twsim race:", err)
			return 2
		}
	} else {
		r := NewRng(Mix(*seed, "C15race", *run))
		var alpha []Op
		if *run%2 == 1 {
			// broadside scenarios walk through {custom error page: failing, valid, none, missing} x {debug off, on}
			k := *run / 2
			c16Force = func(o *TreeOpts) {
				o.ErrPage = []string{"failing", "valid", "", "missing"}[k%4]
				o.Debug = (k/4)%2 == 1
			}
		}
		sc, _, alpha = genC15Alpha(r, "quick")
		c16Force = nil
		sc.Seed, sc.Run = *seed, *run
		if *run%2 == 1 && sc.Family != "cold" {
			// broadside: every goroutine issues EVERY call of the alphabet, each starting at another
			// one, a few times over; with no synchronisation between them the race detector then
			// sees every pair of calls the alphabet can form
			sc.Family = "broadside"
			sc.Tasks = nil
			for g := 0; g < *goroutines; g++ {
				k := (g * len(alpha)) / *goroutines
				sc.Tasks = append(sc.Tasks, append(append([]Op{}, alpha[k:]...), alpha[:k]...))
			}
			*reps = 3
		}
		// more tasks than the simulator uses: real threads are cheap
		for len(sc.Tasks) < *goroutines {
			sc.Tasks = append(sc.Tasks, sc.Tasks[r.Intn(len(sc.Tasks))])
		}
	}
	root, _ := filepath.Abs(*dir)
	for _, f := range sc.Files {
		if f.ReadErr != "" || f.OpenErr != "" || f.Kind != "" {
			continue
		}
		p := filepath.Join(root, f.Path)
		os.MkdirAll(filepath.Dir(p), 0o755)
		if err := os.WriteFile(p, []byte(f.Data), 0o644); err != nil {
			fmt.Fprintln(os.Stderr, "twsim race:", err)
			return 2
		}
	}
	cwd := filepath.Join(root, sc.Cwd)
	os.MkdirAll(cwd, 0o755)
	if err := os.Chdir(cwd); err != nil {
		fmt.Fprintln(os.Stderr, "twsim race:", err)
		return 2
	}
	fix := func(op Op) Op {
		if op.Kind == "evalfile" {
			op.Name = filepath.Join(root, op.Name)
		}
		return op
	}
	simrt.SetFS(nil)
	simrt.SetOrder(nil)
	simrt.SetClock(nil, 0)
	w := &World{Rec: &Recorder{}}
	protect := func(op Op) (o Obs) {
		defer func() {
			if r := recover(); r != nil {
				o = Obs{Kind: "panic", Err: fmt.Sprint(r)}
			}
		}()
		return w.Do(op)
	}
	for _, op := range sc.Setup {
		if o := protect(op); o.Kind != "ok" {
			fmt.Fprintln(os.Stderr, "twsim race: setup failed:", o.Short())
			return 0 // nothing to run; not this layer's business
		}
	}
	w.Rec.Off = true // custom functions must not record under real concurrency
	// The concurrent phase comes FIRST (nothing but the setup has run in this process, so lazy
	// initialisation and first-use caches are exercised under concurrency); every distinct
	// observation is kept, and the sequential baselines are computed afterwards.
	start := make(chan struct{})
	var wg sync.WaitGroup
	seen := make([]map[string]Obs, len(sc.Tasks))
	for ti := range sc.Tasks {
		ti := ti
		seen[ti] = map[string]Obs{}
		wg.Add(1)
		go func() {
			defer wg.Done()
			<-start
			for rep := 0; rep < *reps; rep++ {
				for _, op := range sc.Tasks[ti] {
					op = fix(op)
					o := protect(op)
					k := opKey(op) + "\x00" + o.Key()
					if _, ok := seen[ti][k]; !ok && len(seen[ti]) < 64 {
						seen[ti][k] = o
					}
				}
				if rep%8 == ti%8 {
					runtime.Gosched()
				}
			}
		}()
	}
	close(start)
	wg.Wait()
	base := map[string]Obs{}
	var diverged []string
	for ti, t := range sc.Tasks {
		for _, op := range t {
			op = fix(op)
			if _, ok := base[opKey(op)]; !ok {
				base[opKey(op)] = protect(op)
			}
			exp := base[opKey(op)]
			for k, o := range seen[ti] {
				if strings.HasPrefix(k, opKey(op)+"\x00") && o.Key() != exp.Key() && len(diverged) < 3 {
					diverged = append(diverged, fmt.Sprintf("DIVERGED task=%d op=%s\n  alone:      %s\n  concurrent: %s", ti, op, exp.Short(), o.Short()))
				}
			}
		}
	}
	if len(diverged) > 0 {
		fmt.Fprintln(os.Stderr, strings.Join(diverged, "\n"))
		return 3
	}
	return 0
}
