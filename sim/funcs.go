package sim

import (
	"fmt"
	"sort"
	"strings"
	"syscall"

	textwire "github.com/textwire/textwire/v2"
	"github.com/textwire/textwire/v2/simrt"
)

type simrtErrno = syscall.Errno

const (
	eIO    = syscall.EIO
	eACCES = syscall.EACCES
	eMFILE = syscall.EMFILE
	eNOENT = syscall.ENOENT
)

// Call is one invocation of a harness-supplied custom function (seam S7).
type Call struct {
	Fn   int
	Recv any
	Args []any
}

// Recorder collects the invocations of custom functions.
type Recorder struct {
	Calls []Call
	Off   bool // set before real goroutines start: record nothing
}

// Describe prints a Go value with its dynamic types, canonically.
func Describe(v any) string {
	switch x := v.(type) {
	case nil:
		return "nil"
	case []any:
		parts := make([]string, len(x))
		for i, e := range x {
			parts[i] = Describe(e)
		}
		if x == nil {
			return "[]any(nil)"
		}
		return "[]any[" + strings.Join(parts, " ") + "]"
	case map[string]any:
		ks := make([]string, 0, len(x))
		for k := range x {
			ks = append(ks, k)
		}
		sort.Strings(ks)
		parts := make([]string, len(ks))
		for i, k := range ks {
			parts[i] = fmt.Sprintf("%q=%s", k, Describe(x[k]))
		}
		return "map[string]any{" + strings.Join(parts, " ") + "}"
	case string:
		return fmt.Sprintf("string:%q", x)
	}
	return fmt.Sprintf("%T:%v", v, v)
}

func copyAny(v any) any {
	switch x := v.(type) {
	case []any:
		if x == nil {
			return []any(nil)
		}
		out := make([]any, len(x))
		for i, e := range x {
			out[i] = copyAny(e)
		}
		return out
	case map[string]any:
		out := make(map[string]any, len(x))
		for k, e := range x {
			out[k] = copyAny(e)
		}
		return out
	}
	return v
}

// NumFns is the size of the function catalogue per receiver type.
const NumFns = 6

// ArrResult is what array function #1 returns: a nested value exercising the
// native -> object conversion of results.
func ArrResult() []any {
	return []any{1, "x<y", []any{2.5, nil, true}, map[string]any{"k": int64(7), "n": []any{"deep"}}}
}

// PanicArg as the last argument makes every harness function panic with PanicMsg after it has
// recorded the call.
const (
	PanicArg = "PANIC!"
	PanicMsg = "sim: the user's function panicked (asked to by its last argument)"
)

// Catalogue is the behaviour of harness function #id for a receiver type: a
// pure function of (id, receiver, arguments). The registered closures and the
// C20 reference model both call it.
func Catalogue(recv string, id int, r any, args []any) any {
	switch recv {
	case "str":
		s := r.(string)
		switch id % NumFns {
		case 0:
			return fmt.Sprintf("S%d<%s>", id, s)
		case 1:
			return fmt.Sprintf("S%d[%s|%s]", id, s, Describe([]any(args)))
		case 2:
			return ""
		}
		return strings.ToUpper(s) + fmt.Sprint(len(args))
	case "arr":
		a := r.([]any)
		switch id % NumFns {
		case 0:
			out := make([]any, len(a))
			for i, e := range a {
				out[len(a)-1-i] = e
			}
			return out
		case 1:
			return ArrResult()
		case 2:
			return append([]any{Describe([]any(a))}, args...)
		case 3:
			return []any(nil)
		case 4:
			// mutates the slice it was given and returns that same slice
			for i, j := 0, len(a)-1; i < j; i, j = i+1, j-1 {
				a[i], a[j] = a[j], a[i]
			}
			return a
		}
		for i := range a {
			a[i] = "M"
		}
		return a
	case "int":
		i := r.(int)
		switch id % NumFns {
		case 0:
			return i + 1000*(id+1)
		case 1:
			return -i
		case 2:
			return len(args)
		}
		return i * 2
	case "float":
		f := r.(float64)
		switch id % NumFns {
		case 0:
			return f + 0.5 + float64(id)
		case 1:
			return -f
		case 2:
			return float64(len(args))
		}
		return f * 2
	case "bool":
		b := r.(bool)
		switch id % NumFns {
		case 0:
			return !b
		case 1:
			return b
		case 2:
			return len(args) > 0
		}
		return true
	}
	panic("sim: unknown receiver type " + recv)
}

func (w *World) register(op Op) error {
	rec := w.Rec
	id := op.Fn
	note := func(recv any, args []any) {
		simrt.Yield(simrt.SiteUser)
		if !rec.Off {
			// snapshot: a function may mutate what it was given
			rec.Calls = append(rec.Calls, Call{id, copyAny(recv), copyAny([]any(args)).([]any)})
		}
		// a user's function may fail the hard way; the caller of the render recovers (net/http does)
		if len(args) > 0 {
			if s, ok := args[len(args)-1].(string); ok && s == PanicArg {
				panic(PanicMsg)
			}
		}
	}
	switch op.Recv {
	case "str":
		return textwire.RegisterStrFunc(op.Name, func(s string, args ...any) string {
			note(s, args)
			return Catalogue("str", id, s, args).(string)
		})
	case "arr":
		return textwire.RegisterArrFunc(op.Name, func(a []any, args ...any) []any {
			note(a, args)
			return Catalogue("arr", id, a, args).([]any)
		})
	case "int":
		return textwire.RegisterIntFunc(op.Name, func(i int, args ...any) int {
			note(i, args)
			return Catalogue("int", id, i, args).(int)
		})
	case "float":
		return textwire.RegisterFloatFunc(op.Name, func(f float64, args ...any) float64 {
			note(f, args)
			return Catalogue("float", id, f, args).(float64)
		})
	case "bool":
		return textwire.RegisterBoolFunc(op.Name, func(b bool, args ...any) bool {
			note(b, args)
			return Catalogue("bool", id, b, args).(bool)
		})
	}
	panic("sim: unknown receiver type " + op.Recv)
}
