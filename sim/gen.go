package sim

import (
	"fmt"
	"strings"
)

// Gen generates well-formed textwire templates together with matching data.
// Every text chunk carries a unique sentinel so that oracles can recognise
// parts of a page.
type Gen struct {
	R      *Rng
	Prefix string // sentinel prefix
	sent   int
	vars   []gvar // visible variables, innermost last
	tmp    int
	// FP: when >= 0, failure-point placeholders are emitted and counted.
	FPs    int
	WantFP bool
	// Comps are the component names a template may use (tree scenarios).
	Comps []CompSpec
	// Weights
	ObjBias  int // 0..100 extra bias towards object expressions
	FailBias int // 0..100 chance that an object literal / argument entry fails
	InLoop   int
	// Funcs are custom functions known to be registered: recv type -> names
	Funcs map[string][]string
	// ArgClash: the data defines variables named like component arguments, with other types
	ArgClash bool
	// ObjFail: failing expressions may have object-literal operands
	ObjFail bool
	// AllFuncs: expressions range over the whole built-in function table
	AllFuncs bool
	// NoBig suppresses the occasional > 4 KiB text chunk (C18 truncates files at every prefix)
	NoBig bool
}

type gvar struct {
	name string
	typ  string // int str bool float arr_int arr_str obj nil
	keys []gkey // for obj
}

type gkey struct{ name, typ string }

// CompSpec describes a component file the generator may reference.
type CompSpec struct {
	Name  string   // as written in @component("...")
	Args  []string // argument names the component reads
	Slots []string // slot names it declares ("" = default slot)
}

var strPool = []string{"alpha", "Beta", "g a m m a", "", "d&d", "x<y", "naïve", "日本", "q\"uote", "it's", "  pad  ", "Zed"}
var keyPool = []string{"a", "b", "c", "d", "e", "f", "g", "h", "k", "m", "n", "p", "title", "id", "Name", "zz", "name", "ID", "Id", "NAME", "A"}

// GenData builds the data map and declares its variables in g.
func (g *Gen) GenData() *Val {
	r := g.R
	var ks []string
	var vs []Val
	add := func(name, typ string, v Val, keys []gkey) {
		ks = append(ks, name)
		vs = append(vs, v)
		g.vars = append(g.vars, gvar{name, typ, keys})
	}
	add("z0", "int", VInt(0), nil)
	for i := 1; i <= 2; i++ {
		add(fmt.Sprintf("n%d", i), "int", VInt(r.Range(1, 9)), nil)
	}
	for i := 0; i < 2; i++ {
		add(fmt.Sprintf("s%d", i), "str", VStr(Pick(r, strPool)), nil)
	}
	add("b0", "bool", VBool(r.Chance(50)), nil)
	add("f0", "float", VFloat(float64(r.Range(-20, 20))/4), nil)
	// arrays in several native shapes
	n := r.Range(0, 4)
	ints := Val{T: "ints"}
	for i := 0; i < n; i++ {
		ints.A = append(ints.A, VInt(r.Range(-5, 30)))
	}
	if r.Chance(50) {
		ints.T = "arr"
	}
	add("a0", "arr_int", ints, nil)
	strs := Val{T: "strs"}
	for i, n := 0, r.Range(1, 4); i < n; i++ {
		strs.A = append(strs.A, VStr(Pick(r, strPool)))
	}
	if r.Chance(50) {
		strs.T = "arr"
	}
	add("a1", "arr_str", strs, nil)
	// objects: map[string]any, struct, map[string]string
	for i := 0; i < 2; i++ {
		o, keys := g.genObjVal(2)
		add(fmt.Sprintf("o%d", i), "obj", o, keys)
	}
	add("x0", "nil", VNil(), nil)
	if r.Chance(30) {
		// a Go map whose keys are not strings
		add("m0", "obj", Val{T: "intmap", K: []string{"1", "2", "3"}, V: []Val{VStr("one"), VStr("two"), VStr("three")}}, nil)
	}
	if g.ArgClash {
		// variables named like the components' arguments, of another type: binding such an argument
		// clashes with the enclosing scope
		add("title", "int", VInt(r.Range(1, 9)), nil)
		add("n", "str", VStr("en"), nil)
		add("label", "bool", VBool(true), nil)
	}
	// a value of a named struct type; other struct types print the same name (see NamedStruct)
	add("r0", "obj", Val{T: "named", I: int64(r.Intn(2))}, []gkey{{"num", "int"}, {"title", "str"}})
	d := VMap(ks, vs)
	return &d
}

func (g *Gen) genObjVal(depth int) (Val, []gkey) {
	r := g.R
	nk := r.Range(2, 6)
	if g.ObjBias > 0 && r.Chance(g.ObjBias) {
		nk = r.Range(4, 12)
	}
	perm := append([]string{}, keyPool...)
	for i := len(perm) - 1; i > 0; i-- {
		j := r.Intn(i + 1)
		perm[i], perm[j] = perm[j], perm[i]
	}
	kind := r.Intn(10)
	v := Val{T: "map"}
	if kind == 0 {
		v.T = "struct"
	}
	var keys []gkey
	for i := 0; i < nk && i < len(perm); i++ {
		k := perm[i]
		if v.T == "struct" {
			k = strings.ToUpper(k[:1]) + k[1:]
			dup := false
			for _, kk := range v.K {
				if kk == k {
					dup = true
				}
			}
			if dup {
				continue
			}
		}
		var e Val
		typ := ""
		switch c := r.Intn(10); {
		case c < 4:
			e, typ = VInt(r.Range(-9, 99)), "int"
		case c < 7:
			e, typ = VStr(Pick(r, strPool)), "str"
		case c < 8:
			e, typ = VBool(r.Chance(50)), "bool"
		case c < 9 && depth > 0:
			var sub []gkey
			e, sub = g.genObjVal(depth - 1)
			_ = sub
			typ = "obj"
		default:
			e, typ = VArr(VInt(r.Intn(5)), VInt(r.Intn(5))), "arr_int"
		}
		v.K = append(v.K, k)
		v.V = append(v.V, e)
		keys = append(keys, gkey{k, typ})
	}
	return v, keys
}

func (g *Gen) byType(typ string) []gvar {
	var out []gvar
	for _, v := range g.vars {
		if v.typ == typ {
			out = append(out, v)
		}
	}
	return out
}

func (g *Gen) lit(s string) string {
	if strings.Contains(s, `"`) {
		if strings.Contains(s, `'`) {
			s = strings.ReplaceAll(s, `"`, ``)
		} else {
			return `'` + s + `'`
		}
	}
	return `"` + s + `"`
}

// Expr produces an expression of the wanted type.
func (g *Gen) Expr(typ string, depth int) string {
	r := g.R
	vars := g.byType(typ)
	useVar := len(vars) > 0 && (depth <= 0 || r.Chance(40))
	if useVar {
		return Pick(r, vars).name
	}
	switch typ {
	case "int":
		switch c := r.Intn(10); {
		case depth <= 0 || c < 3:
			return fmt.Sprint(r.Range(0, 12))
		case c < 5:
			return fmt.Sprintf("(%s + %s)", g.Expr("int", depth-1), g.Expr("int", depth-1))
		case c < 6:
			return fmt.Sprintf("(%s * %s)", g.Expr("int", depth-1), g.Expr("int", depth-1))
		case c < 7:
			return fmt.Sprintf("%s.len()", g.Expr("arr_int", depth-1))
		case c < 8:
			return fmt.Sprintf("%s.len()", g.Expr("str", depth-1))
		case c < 9:
			if o := g.objWithKey("int"); o != "" {
				return o
			}
			return fmt.Sprintf("(%s - %s)", g.Expr("int", depth-1), g.Expr("int", depth-1))
		default:
			if g.AllFuncs && r.Chance(60) {
				// the rest of the built-in table (every function that yields an integer)
				switch r.Intn(6) {
				case 0:
					return fmt.Sprintf("%s.abs()", g.Expr("int", depth-1))
				case 1:
					return fmt.Sprintf("%s.len()", g.Expr("int", depth-1))
				case 2:
					return fmt.Sprintf("%s.binary()", g.Expr("bool", depth-1))
				case 3:
					return fmt.Sprintf("%s.int()", g.Expr("float", depth-1))
				case 4:
					return fmt.Sprintf("%s.then(%s, %s)", g.Expr("bool", depth-1), g.Expr("int", depth-1), g.Expr("int", depth-1))
				default:
					return fmt.Sprintf("(%s %% %d)", g.Expr("int", depth-1), r.Range(1, 7))
				}
			}
			return fmt.Sprintf("(%s ? %s : %s)", g.Expr("bool", depth-1), g.Expr("int", depth-1), g.Expr("int", depth-1))
		}
	case "str":
		switch c := r.Intn(10); {
		case depth <= 0 || c < 3:
			return g.lit(Pick(r, strPool))
		case c < 5:
			return fmt.Sprintf("(%s + %s)", g.Expr("str", depth-1), g.Expr("str", depth-1))
		case c < 6:
			return fmt.Sprintf("%s.upper()", g.Expr("str", depth-1))
		case c < 7:
			return fmt.Sprintf("%s.str()", g.Expr("int", depth-1))
		case c < 8:
			return fmt.Sprintf("%s.join(%s)", g.Expr("arr_str", depth-1), g.lit(Pick(r, []string{", ", "-", ""})))
		case c < 9:
			if fs := g.Funcs["str"]; len(fs) > 0 {
				return fmt.Sprintf("%s.%s(%s)", g.Expr("str", depth-1), Pick(r, fs), g.Expr("int", 0))
			}
			if o := g.objWithKey("str"); o != "" {
				return o
			}
			return fmt.Sprintf("%s.trim()", g.Expr("str", depth-1))
		default:
			if g.AllFuncs && r.Chance(70) {
				// the rest of the built-in table (every function that yields a string or nil)
				e := g.Expr("str", depth-1)
				switch r.Intn(17) {
				case 0:
					return e + ".lower()"
				case 1:
					return e + ".capitalize()"
				case 2:
					return e + ".reverse()"
				case 3:
					return fmt.Sprintf("%s.truncate(%d)", e, r.Range(0, 9))
				case 4:
					return fmt.Sprintf("%s.truncate(%d, %s)", e, r.Range(0, 9), g.lit(Pick(r, []string{"~", "", ".."})))
				case 5:
					return fmt.Sprintf("%s.at(%d)", e, r.Range(-3, 6))
				case 6:
					return e + ".first()"
				case 7:
					return e + ".last()"
				case 8:
					return fmt.Sprintf("%s.repeat(%d)", e, r.Range(0, 3))
				case 9:
					return fmt.Sprintf("%s.trimLeft(%s)", e, g.lit(Pick(r, []string{" ", "a", "Z "})))
				case 10:
					return fmt.Sprintf("%s.trimRight(%s)", e, g.lit(Pick(r, []string{" ", "a", "d "})))
				case 11:
					return fmt.Sprintf("%s.trim(%s)", e, g.lit(Pick(r, []string{" ", "ab", "x"})))
				case 12:
					return fmt.Sprintf("%s.decimal()", g.Expr("int", depth-1))
				case 13:
					return fmt.Sprintf("%s.decimal(%s, %d)", g.Expr("int", depth-1), g.lit(Pick(r, []string{",", "."})), r.Range(0, 4))
				case 14:
					return fmt.Sprintf("%s.str()", g.Expr("float", depth-1))
				case 15:
					return fmt.Sprintf("%s.str().decimal()", g.Expr("int", depth-1))
				default:
					return e + ".raw()"
				}
			}
			return fmt.Sprintf("(%s ? %s : %s)", g.Expr("bool", depth-1), g.Expr("str", depth-1), g.Expr("str", depth-1))
		}
	case "bool":
		switch c := r.Intn(8); {
		case depth <= 0 || c < 2:
			return Pick(r, []string{"true", "false"})
		case c < 4:
			return fmt.Sprintf("(%s %s %s)", g.Expr("int", depth-1), Pick(r, []string{"<", ">", "==", "!=", "<=", ">="}), g.Expr("int", depth-1))
		case c < 5:
			return fmt.Sprintf("(%s == %s)", g.Expr("str", depth-1), g.Expr("str", depth-1))
		case c < 6:
			return fmt.Sprintf("!%s", g.Expr("bool", depth-1))
		case c < 7:
			return fmt.Sprintf("%s.contains(%s)", g.Expr("arr_int", depth-1), g.Expr("int", 0))
		default:
			if fs := g.Funcs["bool"]; len(fs) > 0 {
				return fmt.Sprintf("%s.%s()", g.Expr("bool", 0), Pick(r, fs))
			}
			if g.AllFuncs && r.Chance(50) {
				switch r.Intn(4) {
				case 0:
					return fmt.Sprintf("%s.contains(%s)", g.Expr("str", depth-1), g.lit(Pick(r, []string{"a", "", "é", "Z"})))
				case 1:
					return fmt.Sprintf("%s.contains(%s)", g.Expr("arr_str", depth-1), g.Expr("str", 0))
				case 2:
					return fmt.Sprintf("(%s == %s)", g.Expr("bool", depth-1), g.Expr("bool", depth-1))
				default:
					return fmt.Sprintf("(%s < %s)", g.Expr("float", depth-1), g.Expr("float", depth-1))
				}
			}
			return fmt.Sprintf("(%s != %s)", g.Expr("int", depth-1), g.Expr("int", depth-1))
		}
	case "float":
		if depth <= 0 || r.Chance(50) {
			return fmt.Sprintf("%d.%d", r.Range(0, 9), r.Range(0, 99))
		}
		if g.AllFuncs && r.Chance(60) {
			e := g.Expr("float", depth-1)
			switch r.Intn(6) {
			case 0:
				return e + ".abs()"
			case 1:
				return e + ".ceil()"
			case 2:
				return e + ".floor()"
			case 3:
				return e + ".round()"
			case 4:
				return fmt.Sprintf("%s.float()", g.Expr("int", depth-1))
			default:
				return fmt.Sprintf("(%s * %s)", e, g.Expr("float", depth-1))
			}
		}
		return fmt.Sprintf("(%s + %s)", g.Expr("float", depth-1), g.Expr("float", depth-1))
	case "arr_int":
		switch c := r.Intn(6); {
		case depth <= 0 || c < 3:
			n := r.Range(0, 4)
			parts := make([]string, n)
			for i := range parts {
				parts[i] = g.Expr("int", depth-1)
			}
			return "[" + strings.Join(parts, ", ") + "]"
		case c < 4:
			return fmt.Sprintf("%s.reverse()", g.Expr("arr_int", depth-1))
		case c < 5:
			if fs := g.Funcs["arr"]; len(fs) > 0 {
				return fmt.Sprintf("%s.%s()", g.Expr("arr_int", 0), Pick(r, fs))
			}
			return fmt.Sprintf("%s.slice(1)", g.Expr("arr_int", depth-1))
		case c < 6 && g.R.Chance(50):
			return fmt.Sprintf("%s.prepend(%s)", g.Expr("arr_int", depth-1), g.Expr("int", depth-1))
		default:
			return fmt.Sprintf("%s.append(%s)", g.Expr("arr_int", depth-1), g.Expr("int", depth-1))
		}
	case "arr_str":
		if depth <= 0 || r.Chance(60) {
			n := r.Range(1, 3)
			parts := make([]string, n)
			for i := range parts {
				parts[i] = g.Expr("str", depth-1)
			}
			return "[" + strings.Join(parts, ", ") + "]"
		}
		if g.AllFuncs && r.Chance(50) {
			e := g.Expr("arr_str", depth-1)
			switch r.Intn(5) {
			case 0:
				return e + ".reverse()"
			case 1:
				from := r.Range(0, 2)
				return fmt.Sprintf("%s.slice(%d, %d)", e, from, from+r.Range(0, 3))
			case 2:
				return fmt.Sprintf("%s.append(%s, %s)", e, g.Expr("str", 0), g.Expr("str", 0))
			case 3:
				return fmt.Sprintf("%s.prepend(%s)", e, g.Expr("str", 0))
			default:
				return fmt.Sprintf("%s.split()", g.Expr("str", depth-1))
			}
		}
		return fmt.Sprintf("%s.split(%s)", g.Expr("str", depth-1), g.lit(" "))
	case "obj":
		return g.ObjLit(depth)
	case "nil":
		return "nil"
	}
	return "nil"
}

// CaseVariantRead reads a property of a data object through a spelling that differs
// from one of its keys only in case and is not itself a key ("" when there is none).
func (g *Gen) CaseVariantRead() string {
	var out []string
	for _, v := range g.byType("obj") {
		have := map[string]bool{}
		for _, k := range v.keys {
			have[k.name] = true
		}
		for _, k := range v.keys {
			for _, c := range []string{strings.ToLower(k.name), strings.ToUpper(k.name), strings.ToUpper(k.name[:1]) + strings.ToLower(k.name[1:])} {
				if !have[c] {
					out = append(out, "{{ "+v.name+"."+c+" }}")
				}
			}
		}
	}
	if len(out) == 0 {
		return ""
	}
	return Pick(g.R, out)
}

func (g *Gen) objWithKey(typ string) string {
	var cands []string
	for _, v := range g.byType("obj") {
		for _, k := range v.keys {
			if k.typ == typ {
				cands = append(cands, v.name+"."+k.name)
			}
		}
	}
	if len(cands) == 0 {
		return ""
	}
	return Pick(g.R, cands)
}

// ObjLit produces an object literal; with FailBias some entries fail at run time.
func (g *Gen) ObjLit(depth int) string {
	r := g.R
	nk := r.Range(1, 5)
	if g.ObjBias > 0 && r.Chance(g.ObjBias) {
		nk = r.Range(3, 12)
	}
	perm := append([]string{}, keyPool...)
	for i := len(perm) - 1; i > 0; i-- {
		j := r.Intn(i + 1)
		perm[i], perm[j] = perm[j], perm[i]
	}
	var parts []string
	for i := 0; i < nk; i++ {
		k := perm[i]
		if r.Chance(15) {
			k = `"` + k + `"`
		}
		var e string
		if g.FailBias > 0 && r.Chance(g.FailBias) {
			e = g.FailExpr()
		} else {
			e = g.Expr(Pick(r, []string{"int", "str", "bool", "int", "str", "arr_int", "obj", "float"}), depth-1)
		}
		parts = append(parts, k+": "+e)
	}
	return "{" + strings.Join(parts, ", ") + "}"
}

// FailExpr is an expression that fails when evaluated; different calls give
// errors with different messages so that "which one is reported" is observable.
func (g *Gen) FailExpr() string {
	g.tmp++
	switch c := g.R.Intn(10); {
	case c < 6:
		return fmt.Sprintf("undef%d", g.tmp)
	case c < 7:
		return fmt.Sprintf("(%d / z0)", g.tmp)
	case c < 7 && g.ObjFail:
		// expressions that make the evaluator itself panic on the pinned tree (integer % 0, dot on a
		// non-object): all replicas must still agree on what the caller sees
		return Pick(g.R, []string{"(7 % z0)", `"a".x`, "n1.y"})
	case c < 8 && g.ObjFail:
		// failures whose offending node contains an object literal with several keys
		return Pick(g.R, []string{"({a: 1, b: 2, c: 3} + 1)", "{id: 1, name: 2, zz: 3}.email", "[1, 2].slice({from: 0, to: 2, step: 1})", "(-{x: 1, y: 2})"})
	default:
		// type mismatch: the message names both types and the operator
		ops := []string{"+", "-", "*", "/"}
		lhs := []string{"1", `"s"`, "1.5", "true", "[1]"}
		k := g.tmp
		l := lhs[k%len(lhs)]
		rr := lhs[(k/len(lhs)+1+k)%len(lhs)]
		if l == rr {
			rr = lhs[(k+2)%len(lhs)]
		}
		return fmt.Sprintf("(%s %s %s)", l, ops[(k/3)%len(ops)], rr)
	}
}

func (g *Gen) Sentinel() string {
	g.sent++
	return fmt.Sprintf("%s_%d", g.Prefix, g.sent)
}

func (g *Gen) Text() string {
	if !g.NoBig && g.R.Chance(3) {
		// a chunk larger than common buffer sizes (4 KiB)
		return "<pre>" + strings.Repeat("%[1]s big chunk padding. ", 200) + "</pre>"
	}
	return Pick(g.R, []string{"<p>%s</p>", "%s ", "\n<div class=\"c\">%s</div>\n", "<b>%s</b>", " %s\n"})
}

func (g *Gen) fp() string {
	if !g.WantFP {
		return ""
	}
	g.FPs++
	return fmt.Sprintf("\x00FP%d\x00", g.FPs-1)
}

func (g *Gen) anyType() string {
	ts := []string{"int", "str", "bool", "float", "arr_int", "arr_str", "obj", "obj", "int", "str"}
	if g.ObjBias > 0 && g.R.Chance(g.ObjBias) {
		return "obj"
	}
	return Pick(g.R, ts)
}

// Stmts generates n statements at the given nesting depth.
func (g *Gen) Stmts(n, depth int) string {
	var b strings.Builder
	for i := 0; i < n; i++ {
		b.WriteString(g.fp())
		b.WriteString(g.Stmt(depth))
	}
	b.WriteString(g.fp())
	return b.String()
}

func (g *Gen) Stmt(depth int) string {
	r := g.R
	c := r.Intn(100)
	if depth <= 0 && c >= 55 {
		c = r.Intn(55)
	}
	switch {
	case c < 25:
		return fmt.Sprintf(g.Text(), g.Sentinel())
	case c < 45:
		return "{{ " + g.Expr(g.anyType(), 2) + " }}"
	case c < 50:
		// assignment to a fresh variable
		g.tmp++
		name := fmt.Sprintf("t%d", g.tmp)
		typ := Pick(r, []string{"int", "str", "bool", "arr_int", "obj"})
		e := g.Expr(typ, 2)
		var keys []gkey
		g.vars = append(g.vars, gvar{name, typ, keys})
		return "{{ " + name + " = " + e + " }}"
	case c < 55:
		n := r.Range(1, 3)
		parts := make([]string, n)
		for i := range parts {
			parts[i] = g.Expr(g.anyType(), 2)
		}
		return "@dump(" + strings.Join(parts, ", ") + ")"
	case c < 70:
		// if / elseif / else
		save := len(g.vars)
		s := "@if(" + g.Expr("bool", 2) + ")" + g.Stmts(r.Range(1, 2), depth-1)
		g.vars = g.vars[:save]
		if r.Chance(30) {
			ne := 1
			if r.Chance(40) {
				ne = r.Range(2, 7)
			}
			for k := 0; k < ne; k++ {
				s += "@elseif(" + g.Expr("bool", 1) + ")" + g.Stmts(1, depth-1)
				g.vars = g.vars[:save]
			}
		}
		if r.Chance(50) {
			s += "@else" + g.Stmts(1, depth-1)
			g.vars = g.vars[:save]
		}
		return s + "@end"
	case c < 82:
		// each
		save := len(g.vars)
		g.tmp++
		v := fmt.Sprintf("e%d", g.tmp)
		et := Pick(r, []string{"arr_int", "arr_str"})
		arr := g.Expr(et, 1)
		g.vars = append(g.vars, gvar{v, strings.TrimPrefix(et, "arr_"), nil})
		g.InLoop++
		body := g.Stmts(r.Range(1, 2), depth-1)
		if r.Chance(50) {
			body += "[{{ loop.index }}/{{ loop.last }}:{{ " + v + " }}]"
		}
		if r.Chance(15) {
			body += "@breakIf(loop.index == 1)"
		} else if r.Chance(15) {
			body = "@continueIf(loop.first)" + body
		}
		g.InLoop--
		g.vars = g.vars[:save]
		s := "@each(" + v + " in " + arr + ")" + body
		if r.Chance(25) {
			s += "@else" + fmt.Sprintf(g.Text(), g.Sentinel())
		}
		return s + "@end"
	case c < 90:
		// for
		save := len(g.vars)
		g.tmp++
		v := fmt.Sprintf("i%d", g.tmp)
		g.vars = append(g.vars, gvar{v, "int", nil})
		g.InLoop++
		body := g.Stmts(r.Range(1, 2), depth-1)
		g.InLoop--
		g.vars = g.vars[:save]
		return fmt.Sprintf("@for(%s = 0; %s < %d; %s++)%s@end", v, v, r.Range(1, 3), v, body)
	default:
		if len(g.Comps) > 0 {
			return g.CompUse(depth)
		}
		return "{{-- " + g.Sentinel() + " --}}"
	}
}

// CompUse generates a use of one of the known components.
func (g *Gen) CompUse(depth int) string {
	r := g.R
	c := Pick(r, g.Comps)
	var args []string
	for _, a := range c.Args {
		var e string
		if g.FailBias > 0 && r.Chance(g.FailBias) {
			e = g.FailExpr()
		} else {
			e = g.Expr(Pick(r, []string{"int", "str"}), 1)
		}
		args = append(args, a+": "+e)
	}
	s := `@component("` + c.Name + `"`
	if len(args) > 0 {
		s += ", {" + strings.Join(args, ", ") + "}"
	}
	s += ")"
	if len(c.Slots) == 0 || r.Chance(30) {
		return s + "\n"
	}
	s += "\n"
	for _, sl := range c.Slots {
		if r.Chance(20) {
			continue
		}
		if sl == "" {
			s += "@slot"
		} else {
			s += `@slot("` + sl + `")`
		}
		save := len(g.vars)
		s += g.Stmts(1, 0) + "@end\n"
		g.vars = g.vars[:save]
	}
	return s + "@end\n"
}

// Instantiate replaces failure-point placeholders: placeholder `at` becomes the
// failing statement, all others vanish. at < 0 removes all.
func Instantiate(tpl string, at int, failing string) string {
	var b strings.Builder
	for {
		i := strings.IndexByte(tpl, 0)
		if i < 0 {
			b.WriteString(tpl)
			break
		}
		b.WriteString(tpl[:i])
		rest := tpl[i+1:]
		j := strings.IndexByte(rest, 0)
		tag := rest[:j]
		tpl = rest[j+1:]
		var n int
		fmt.Sscanf(tag, "FP%d", &n)
		if n == at {
			b.WriteString(failing)
		}
	}
	return b.String()
}
