package sim

import (
	"fmt"
	"math"
	"reflect"
	"strings"

	"github.com/textwire/textwire/v2/fail"
	"github.com/textwire/textwire/v2/object"
)

// C20 — custom function registry. State owned: S5 (the registry, a state
// machine over Register/call/load histories) and S7 (user callbacks).
type c20 struct{}

func init() { Props["C20"] = c20{} }

func (c20) ID() string    { return "C20" }
func (c20) Level() string { return "exploration" }
func (c20) Runs(tier string) int {
	if tier == "thorough" {
		return 400000
	}
	return 24000
}
func (c20) Rule() string {
	return "histories over {Register<T>(name, fn_i), call (T, name, receiver as literal or variable, arguments) through EvaluateString, load(tree), call through (*Template).String} with 2..3 names (some colliding with built-ins) x the five receiver types x a catalogue of recording functions. Run 0 enumerates ALL histories of length <= 2 over a fixed alphabet (exhaustive), the others are seeded random histories of length 3..20 with arguments ranging over nested arrays/objects, boundary integers, empty and non-ASCII strings, nil. Refinement against an executable reference model: a map (type, name) -> first registered function; Register returns nil iff the key is new; a call observes the built-in when one exists (decided by the repository's exported error constant on an empty registry), else the first registered function, which must have received receiver and arguments deep-equal to the plain Go values of the same content and whose result must print exactly like the same Go value passed as data; otherwise an error naming function and receiver type. evaluations = operations executed. distinct_nontrivial = distinct histories (content hash) that contain a duplicate registration or a call after a load."
}
func (c20) Assumptions() []string {
	return []string{
		"there is no schedule, clock or I/O in C20; it is a simulation target because its truth is a function of an operation history over persistent state, decided by refinement against a reference model over seeded histories",
		"string literal receivers/arguments avoid < > & \" ' (HTML-escaping of literals is C10's business); such strings travel as variables in the data map",
		"nil and empty slices/maps are treated as the same content",
	}
}

// CallSpec describes a call so that the model can compute what the function must receive.
type CallSpec struct {
	Recv    string `json:"recv"` // str arr int float bool
	Name    string `json:"name"`
	RecvVal Val    `json:"recvval"`
	RecvLit bool   `json:"recvlit"`
	Args    []Val  `json:"args,omitempty"`
	ArgLit  []bool `json:"arglit,omitempty"`
	ViaTpl  bool   `json:"viatpl,omitempty"`
	// Loop: the call sits inside @each(x in Loop) and is evaluated once per element;
	// LoopArgs are extra arguments built from x (see loopArgKinds).
	Where    string   `json:"where,omitempty"` // template calls: "" in the page, "component" in a component file, "slot" in a slot body, "insert" in a layout insert
	Site     bool     `json:"site,omitempty"`  // template calls: the shared call site {{ x.NAME() }} of page poly_NAME (receiver type varies between renders)
	Chain    bool     `json:"chain,omitempty"` // recv.fn(args).fn(): the result of the first call is the receiver of the second
	Loop     []int64  `json:"loop,omitempty"`
	LoopArgs []string `json:"loopargs,omitempty"`
	// Mixed: ONE call site, {{ o.v.NAME() }} inside @each(o in objs), evaluated once per element within one
	// render with receivers of different types (the elements are objects whose field v holds them)
	Mixed     []Val    `json:"mixed,omitempty"`
	MixedType []string `json:"mixedtype,omitempty"`
}

var loopArgKinds = []string{"x", "-x", "[x]", "[-x]", "[[0, -x]]", "{n: -x}", "{n: x, m: [x]}", "(x + 1)", "[-x, x]"}

// loopArgCanon is the plain Go value of a loop argument for a given x.
func loopArgCanon(kind string, x int64) any {
	switch kind {
	case "x":
		return x
	case "-x":
		return -x
	case "[x]":
		return []any{x}
	case "[-x]":
		return []any{-x}
	case "[[0, -x]]":
		return []any{[]any{int64(0), -x}}
	case "{n: -x}":
		return map[string]any{"n": -x}
	case "{n: x, m: [x]}":
		return map[string]any{"n": x, "m": []any{x}}
	case "(x + 1)":
		return x + 1
	case "[-x, x]":
		return []any{-x, x}
	}
	panic("sim: loop arg kind " + kind)
}

// Canon is the plain Go value the property says a function receives.
func Canon(v Val) any {
	switch v.T {
	case "nil", "":
		return nil
	case "int", "int64", "int32", "uint8":
		return v.I
	case "float", "float32":
		if v.T == "float32" {
			return float64(float32(v.F))
		}
		return v.F
	case "str":
		return v.S
	case "bool":
		return v.B
	case "arr", "strs", "ints", "floats":
		out := make([]any, len(v.A))
		for i, e := range v.A {
			out[i] = Canon(e)
		}
		return out
	case "map", "smap", "imap", "struct":
		out := map[string]any{}
		for i, k := range v.K {
			out[k] = Canon(v.V[i])
		}
		return out
	case "named":
		switch v.I % 3 {
		case 0:
			return map[string]any{"Num": int64(7), "Title": "Dr"}
		case 1:
			return map[string]any{"Title": "Ms", "Extra": true, "Num": int64(9)}
		}
		return map[string]any{"Num": "n"}
	case "intmap":
		out := map[string]any{}
		for i := range v.K {
			out[fmt.Sprint(i+1)] = v.V[i].S
		}
		return out
	case "deep":
		var cur any = map[string]any{"leaf": v.I}
		for i := int64(0); i < v.I; i++ {
			cur = map[string]any{"d": cur}
		}
		return cur
	case "sharedptr":
		s := sharedPtrs[int(v.I)%len(sharedPtrs)]
		links := make([]any, len(s.Links))
		for i, l := range s.Links {
			links[i] = l
		}
		return map[string]any{"Name": s.Name, "Year": int64(s.Year), "Links": links}
	case "ptr":
		return Canon(v.A[0])
	}
	panic("sim: Canon of " + v.T)
}

// canonNative normalises a Go value the way a round trip through textwire's
// objects does: every integer becomes int64 (int for an int receiver), float32
// becomes float64, slices become []any.
func canonNative(v any, recvType string) any {
	switch x := v.(type) {
	case int:
		if recvType == "int" {
			return x
		}
		return int64(x)
	case int64:
		if recvType == "int" {
			return int(x)
		}
		return x
	case []any:
		out := make([]any, len(x))
		for i, e := range x {
			out[i] = canonNative(e, "")
		}
		return out
	case map[string]any:
		out := map[string]any{}
		for k, e := range x {
			out[k] = canonNative(e, "")
		}
		return out
	}
	return v
}

// sameContent is deep equality that does not distinguish nil from empty.
func sameContent(a, b any) bool {
	switch x := a.(type) {
	case []any:
		y, ok := b.([]any)
		if !ok || len(x) != len(y) {
			return false
		}
		for i := range x {
			if !sameContent(x[i], y[i]) {
				return false
			}
		}
		return true
	case map[string]any:
		y, ok := b.(map[string]any)
		if !ok || len(x) != len(y) {
			return false
		}
		for k, v := range x {
			w, ok := y[k]
			if !ok || !sameContent(v, w) {
				return false
			}
		}
		return true
	}
	return reflect.DeepEqual(a, b)
}

// srcOf renders a value as template source (literals only).
func srcOf(v Val) string {
	switch v.T {
	case "nil":
		return "nil"
	case "int", "int64":
		if v.I < 0 {
			return fmt.Sprintf("-%d", -v.I)
		}
		return fmt.Sprint(v.I)
	case "float":
		s := fmt.Sprintf("%g", math.Abs(v.F))
		if !strings.Contains(s, ".") {
			s += ".0"
		}
		if v.F < 0 {
			return "-" + s
		}
		return s
	case "str":
		return `"` + v.S + `"`
	case "bool":
		return fmt.Sprint(v.B)
	case "arr":
		parts := make([]string, len(v.A))
		for i, e := range v.A {
			parts[i] = srcOf(e)
		}
		return "[" + strings.Join(parts, ", ") + "]"
	case "map":
		parts := make([]string, len(v.K))
		for i, k := range v.K {
			parts[i] = k + ": " + srcOf(v.V[i])
		}
		return "{" + strings.Join(parts, ", ") + "}"
	}
	panic("sim: srcOf " + v.T)
}

func litOK(v Val) bool {
	switch v.T {
	case "nil", "bool":
		return true
	case "int", "int64":
		return v.I > math.MinInt64
	case "float":
		return v.F == math.Trunc(v.F*4)/4 && math.Abs(v.F) < 1e6
	case "str":
		return !strings.ContainsAny(v.S, "<>&\"'\\\n{}")
	case "arr":
		for _, e := range v.A {
			if !litOK(e) {
				return false
			}
		}
		return true
	case "map":
		for i, k := range v.K {
			if !litOK(v.V[i]) || k == "" {
				return false
			}
		}
		return len(v.K) > 0 || true
	}
	return false
}

// build produces the source expression and data map of a call.
func (c CallSpec) build() (string, *Val) {
	if c.Site {
		return "{{ x." + c.Name + "() }}", &Val{T: "map", K: []string{"x"}, V: []Val{c.RecvVal}}
	}
	if len(c.Mixed) > 0 {
		objs := Val{T: "arr"}
		for _, v := range c.Mixed {
			objs.A = append(objs.A, VMap([]string{"v"}, []Val{v}))
		}
		return "@each(o in objs){{ o.v." + c.Name + "() }};@end", &Val{T: "map", K: []string{"objs"}, V: []Val{objs}}
	}
	data := &Val{T: "map"}
	nv := 0
	ref := func(v Val, lit bool) string {
		if lit && litOK(v) {
			return srcOf(v)
		}
		name := fmt.Sprintf("v%d", nv)
		nv++
		data.K = append(data.K, name)
		data.V = append(data.V, v)
		return name
	}
	recv := ref(c.RecvVal, c.RecvLit)
	if c.RecvLit && litOK(c.RecvVal) && (c.Recv == "int" || c.Recv == "float") && strings.HasPrefix(recv, "-") {
		recv = "(" + recv + ")"
	}
	args := make([]string, len(c.Args))
	for i, a := range c.Args {
		args[i] = ref(a, i < len(c.ArgLit) && c.ArgLit[i])
	}
	if len(c.Loop) > 0 {
		args = append(args, c.LoopArgs...)
		elems := make([]string, len(c.Loop))
		for i, x := range c.Loop {
			elems[i] = fmt.Sprint(x)
		}
		return "@each(x in [" + strings.Join(elems, ", ") + "]){{ " + recv + "." + c.Name + "(" + strings.Join(args, ", ") + ") }};@end", data
	}
	if c.Chain {
		return "{{ " + recv + "." + c.Name + "(" + strings.Join(args, ", ") + ")." + c.Name + "() }}", data
	}
	return "{{ " + recv + "." + c.Name + "(" + strings.Join(args, ", ") + ") }}", data
}

// callPanics: the call passes PanicArg as its last argument.
func callPanics(c CallSpec) bool {
	return len(c.Args) > 0 && len(c.Loop) == 0 && !c.Chain && c.Args[len(c.Args)-1].T == "str" && c.Args[len(c.Args)-1].S == PanicArg
}

func typeConst(recv string) string {
	switch recv {
	case "str":
		return string(object.STR_OBJ)
	case "arr":
		return string(object.ARR_OBJ)
	case "int":
		return string(object.INT_OBJ)
	case "float":
		return string(object.FLOAT_OBJ)
	case "bool":
		return string(object.BOOL_OBJ)
	}
	return "?"
}

func recvNative(c CallSpec) any {
	v := Canon(c.RecvVal)
	if c.Recv == "int" {
		return int(v.(int64))
	}
	return v
}

// ---- generation -------------------------------------------------------------------

// per type: two free names, two names of built-ins of that type, two names that are
// built-ins of OTHER receiver types only
var c20Names = map[string][]string{
	// the last names of each row differ from a built-in of that very type only in case
	"str":   {"foo", "bar", "trim", "len", "abs", "join", "sha256", "to_b64", "Upper", "Reverse", "LEN"},
	"arr":   {"foo", "bar", "join", "len", "upper", "ceil", "top10", "_x", "Contains", "Join"},
	"int":   {"foo", "bar", "abs", "str", "join", "trim", "mod10", "h1", "Abs", "Str"},
	"float": {"foo", "bar", "abs", "ceil", "len", "reverse", "f2", "r_2", "Ceil", "Round"},
	"bool":  {"foo", "bar", "then", "binary", "reverse", "len", "b1", "is_0", "Then", "Binary"},
}
var c20Types = []string{"str", "arr", "int", "float", "bool"}

func genArg(r *Rng, depth int) Val {
	switch c := r.Intn(12); {
	case c < 2:
		return VInt(Pick(r, []int{0, 1, -1, 7, 42, 1 << 31, -(1 << 31)}))
	case c < 3:
		return Val{T: "int64", I: Pick(r, []int64{math.MaxInt64, math.MinInt64, math.MaxInt64 - 1, 1 << 53})}
	case c < 5:
		return VStr(Pick(r, []string{"", "x", "héllo wörld", "日本語", "a<b & c", `q"t`, "it's", "line\nbreak", "  ", "Tom &amp; Jerry", "&lt;b&gt;", "/s?a=1&lt=2&copy=3", "&#39;x&#39;"}))
	case c < 6:
		return VFloat(Pick(r, []float64{0.5, -2.25, 1e10, 3.0, 0.1}))
	case c < 7:
		return VBool(r.Chance(50))
	case c < 8:
		return VNil()
	case c < 10 && depth > 0:
		n := r.Range(0, 3)
		a := Val{T: Pick(r, []string{"arr", "arr", "strs", "ints"})}
		for i := 0; i < n; i++ {
			switch a.T {
			case "strs":
				a.A = append(a.A, VStr(Pick(r, []string{"", "p", "ü"})))
			case "ints":
				a.A = append(a.A, VInt(r.Range(-3, 3)))
			default:
				a.A = append(a.A, genArg(r, depth-1))
			}
		}
		return a
	case depth > 0:
		n := r.Range(0, 3)
		m := Val{T: "map"}
		for i := 0; i < n; i++ {
			k := Pick(r, []string{"a", "b", "key", "Z"})
			dup := false
			for _, kk := range m.K {
				if kk == k {
					dup = true
				}
			}
			if !dup {
				m.K = append(m.K, k)
				m.V = append(m.V, genArg(r, depth-1))
			}
		}
		return m
	}
	return VInt(r.Range(0, 9))
}

func genRecv(r *Rng, typ string) Val {
	switch typ {
	case "str":
		return VStr(Pick(r, []string{"abc", "", "Hello World", "ünï", "a<b", "x y", "R &amp; D", "&copy; 2026"}))
	case "arr":
		n := r.Range(0, 3)
		a := Val{T: "arr"}
		for i := 0; i < n; i++ {
			a.A = append(a.A, genArg(r, 1))
		}
		return a
	case "int":
		return VInt(Pick(r, []int{0, 5, -3, 1000000}))
	case "float":
		return VFloat(Pick(r, []float64{2.5, 0.25, -1.5, 10.0}))
	}
	return VBool(r.Chance(50))
}

func genCall(r *Rng, typ, name string, viaTpl bool) CallSpec {
	c := CallSpec{Recv: typ, Name: name, RecvVal: genRecv(r, typ), RecvLit: r.Chance(50), ViaTpl: viaTpl}
	n := r.Range(0, 3)
	for i := 0; i < n; i++ {
		c.Args = append(c.Args, genArg(r, 2))
		c.ArgLit = append(c.ArgLit, r.Chance(50))
	}
	if viaTpl && r.Chance(25) {
		// one call site shared by renders with receivers of different types
		return CallSpec{Recv: typ, Name: name, RecvVal: genRecv(r, typ), ViaTpl: true, Site: true}
	}
	if viaTpl && r.Chance(40) {
		c.Where = Pick(r, []string{"component", "slot", "insert"})
		return c
	}
	if r.Chance(15) && (name == "foo" || name == "bar") {
		// only for names that are no built-in of any type: the chain then stays within one receiver type
		if !viaTpl && r.Chance(50) {
			// ... or one call site that meets receivers of several types within one render
			m := CallSpec{Recv: typ, Name: name, RecvVal: c.RecvVal, Mixed: []Val{c.RecvVal}, MixedType: []string{typ}}
			for i, n := 0, r.Range(1, 3); i < n; i++ {
				t := Pick(r, c20Types)
				m.Mixed, m.MixedType = append(m.Mixed, genRecv(r, t)), append(m.MixedType, t)
			}
			return m
		}
		c.Chain = true
		return c
	}
	if r.Chance(25) {
		// the same call site evaluated several times in one render, with arguments built from the loop variable
		for i, m := 0, r.Range(2, 4); i < m; i++ {
			c.Loop = append(c.Loop, int64(r.Range(-3, 9)))
		}
		for i, m := 0, r.Range(1, 3); i < m; i++ {
			c.LoopArgs = append(c.LoopArgs, Pick(r, loopArgKinds))
		}
	}
	return c
}

const c20Page = "fnpage"

// ---- execution against the model ----------------------------------------------------

type c20Fail struct{ what, clause, exp, got string }

func c20Cfg() *Cfg { return &Cfg{Dir: "templates", Ext: ".tw"} }

func c20Files(ops []Op) []File {
	files := []File{{Path: "/srv/app/templates/plain.tw", Data: "<p>plain</p>", Role: "page"},
		{Path: "/srv/app/badtpl/broken.tw", Data: "<p>{{ 1 + }}</p>", Role: "page"}}
	tp := func(name string) string { return "/srv/app/templates/" + name + ".tw" }
	files = append(files,
		File{Path: tp("c20wrap"), Data: "<i>@slot</i>", Role: "component"},
		File{Path: tp("c20lay"), Data: "<html>@reserve(\"content\")</html>", Role: "layout"})
	polys := map[string]bool{}
	for i, op := range ops {
		if op.Call == nil || !op.Call.ViaTpl {
			continue
		}
		src, _ := op.Call.build()
		if op.Call.Site {
			if !polys[op.Call.Name] {
				polys[op.Call.Name] = true
				files = append(files, File{Path: tp("poly_" + op.Call.Name), Data: "<b>" + src + "</b>", Role: "page"})
			}
			continue
		}
		// the page with the call, and a reference page of the same shape that prints {{ v }} instead
		for _, variant := range []struct{ prefix, body string }{{c20Page, src}, {"ref", "{{ v }}"}} {
			name := fmt.Sprintf("%s%d", variant.prefix, i)
			switch op.Call.Where {
			case "component":
				files = append(files, File{Path: tp(name), Data: "<b>@component(\"" + name + "_c\")</b>", Role: "page"},
					File{Path: tp(name + "_c"), Data: "(" + variant.body + ")", Role: "component"})
			case "slot":
				files = append(files, File{Path: tp(name), Data: "<b>@component(\"c20wrap\")\n@slot[" + variant.body + "]@end\n@end</b>", Role: "page"})
			case "insert":
				files = append(files, File{Path: tp(name), Data: "@use(\"c20lay\")\n@insert(\"content\")[" + variant.body + "]@end", Role: "page"})
			default:
				files = append(files, File{Path: tp(name), Data: "<b>" + variant.body + "</b>", Role: "page"})
			}
		}
	}
	return files
}

// opFor turns a call spec into the API operation.
func callOp(i int, c CallSpec) Op {
	src, data := c.build()
	cc := c
	if c.ViaTpl && c.Site {
		return Op{Kind: "string", Name: "poly_" + c.Name, Data: data, Call: &cc}
	}
	if c.ViaTpl {
		return Op{Kind: "string", Name: fmt.Sprintf("%s%d", c20Page, i), Data: data, Call: &cc}
	}
	return Op{Kind: "evalstr", Src: src, Data: data, Call: &cc}
}

func errMsgOf(o Obs) string {
	if o.Fail {
		return o.Msg
	}
	if i := strings.Index(o.Err, "]:\n"); i >= 0 {
		return o.Err[i+3:]
	}
	return o.Err
}

// c20Check runs a history and compares it with the reference model.
func c20Check(sc *Scenario, acc *Acc) (*c20Fail, int) {
	ops := sc.Ops
	// phase 1: for every call, what an EMPTY registry answers (is there a built-in?) and
	// how the expected result prints when passed as data
	type pre struct {
		empty   Obs
		builtin bool
		asData  map[int]Obs // fn id -> rendering of its result passed as data
	}
	pres := map[int]*pre{}
	for i, op := range ops {
		if op.Call == nil {
			continue
		}
		c := *op.Call
		w := NewWorld(sc.Cwd, sc.Files)
		pinSeams()
		// the same loads as in the history (the configuration is process-global by design, so a
		// later NewTemplate - even a failing one - changes the paths an earlier Template reports),
		// but no registrations
		for _, prev := range ops[:i] {
			if prev.Kind == "newtemplate" {
				w.RunOp(prev, Budget)
			}
		}
		if c.ViaTpl && w.Tpl == nil {
			continue
		}
		p := &pre{asData: map[int]Obs{}}
		p.empty = w.RunOp(op, Budget)
		notExist := fmt.Sprintf(fail.ErrNoFuncForThisType, c.Name, typeConst(c.Recv))
		p.builtin = !(p.empty.Kind == "err" && errMsgOf(p.empty) == notExist)
		pres[i] = p
	}
	// phase 2: the history itself
	w := NewWorld(sc.Cwd, sc.Files)
	pinSeams()
	model := map[string]int{}
	loaded := false
	for i, op := range ops {
		ncalls := len(w.Rec.Calls)
		o := w.RunOp(op, Budget)
		if acc != nil {
			acc.Evals++
			acc.Steps += o.Steps
		}
		if op.Call != nil && callPanics(*op.Call) && len(w.Rec.Calls) > ncalls {
			// the user's own function was invoked and panicked, as asked. Whether that panic reaches the
			// caller (textwire today; the caller recovers, as net/http does) or is turned into an error
			// of the render is not the property's business. It must have been the right function,
			// invoked once, and nothing may be different afterwards.
			if o.Kind == "abort" || (o.Kind == "panic" && !strings.Contains(o.Err, PanicMsg)) {
				return &c20Fail{"op-" + o.Kind, "an operation of the history panics or hangs", "", o.Short()}, i
			}
			if fn, registered := model[op.Call.Recv+"/"+op.Call.Name]; registered {
				if nc := w.Rec.Calls[ncalls:]; len(nc) != 1 || nc[0].Fn != fn {
					return &c20Fail{"wrong-function", "the call reaches another function than the first one registered for (type, name)", fmt.Sprint("fn", fn), fmt.Sprint(len(nc), " invocation(s)")}, i
				}
			} else {
				return &c20Fail{"wrong-function", "an unregistered (type, name) invoked some function", "no invocation", fmt.Sprint(len(w.Rec.Calls) - ncalls)}, i
			}
			if acc != nil {
				acc.Fault("custom-function-panics-caller-recovers", 1)
			}
			continue
		}
		if o.Kind == "panic" || o.Kind == "abort" {
			return &c20Fail{"op-" + o.Kind, "an operation of the history panics or hangs", "", o.Short()}, i
		}
		switch {
		case op.Kind == "register":
			key := op.Recv + "/" + op.Name
			_, dup := model[key]
			if dup && o.Kind == "ok" {
				return &c20Fail{"duplicate-registration-accepted", "registering a name again for the same receiver type succeeds", "an error", o.Short()}, i
			}
			if !dup && o.Kind != "ok" {
				return &c20Fail{"first-registration-rejected", "the first registration of a name for a receiver type fails", "nil", o.Short()}, i
			}
			if !dup {
				model[key] = op.Fn
			}
		case op.Kind == "newtemplate" && op.Cfg != nil && op.Cfg.Dir != c20Cfg().Dir:
			// a load that is meant to fail (missing directory / syntax error): the registry
			// and the previously loaded templates must be unaffected
			if o.Kind == "ok" {
				return &c20Fail{"setup", "a load that should fail succeeds", "", o.Short()}, i
			}
			if acc != nil {
				acc.Fault("failing-load-between-registry-operations", 1)
			}
		case op.Kind == "newtemplate":
			if o.Kind != "ok" {
				return &c20Fail{"setup", "loading the scenario's tree fails", "", o.Short()}, i
			}
			loaded = true
		case op.Call != nil:
			c := *op.Call
			if c.ViaTpl && !loaded {
				continue // not generated; defensive
			}
			p := pres[i]
			if p == nil {
				continue
			}
			fn, registered := model[c.Recv+"/"+c.Name]
			newCalls := w.Rec.Calls[ncalls:]
			switch {
			case p.builtin:
				if o.Key() != p.empty.Key() {
					return &c20Fail{"builtin-shadowed", "a built-in of that name exists but the call observes something else than with an empty registry", p.empty.Short(), o.Short()}, i
				}
				if len(newCalls) != 0 {
					return &c20Fail{"builtin-shadowed", "a built-in of that name exists but the custom function was invoked", "no invocation", fmt.Sprint(len(newCalls), " invocations")}, i
				}
			case len(c.Mixed) > 0:
				// per element, in order: the function registered for THAT element's type, or the error
				// for that type at the first element that has none (nothing is evaluated after it)
				exp, k := "", 0
				for j, v := range c.Mixed {
					t := c.MixedType[j]
					efn, ok := model[t+"/"+c.Name]
					if !ok {
						if o.Kind != "err" || !strings.Contains(o.Err, c.Name) || !strings.Contains(o.Err, typeConst(t)) {
							return &c20Fail{"mixed-site-unregistered-type", "one call site, several receiver types in one render: an element whose type has no function of that name does not fail the render with the error naming the function and that type", c.Name + " / " + typeConst(t), o.Short()}, i
						}
						exp = ""
						break
					}
					if k >= len(newCalls) {
						return &c20Fail{"mixed-site-not-called", "one call site, several receiver types in one render: a registered function is not invoked for its element", fmt.Sprint(k+1, " invocation(s) at least"), fmt.Sprintf("%d invocations; %s", len(newCalls), o.Short())}, i
					}
					got := newCalls[k]
					k++
					if got.Fn != efn {
						return &c20Fail{"mixed-site-wrong-function", "one call site, several receiver types in one render: an element reaches another function than the one registered for (its type, name)", fmt.Sprint("fn", efn, " for ", t), fmt.Sprint("fn", got.Fn)}, i
					}
					want := recvNative(CallSpec{Recv: t, RecvVal: v})
					if !sameContent(got.Recv, want) {
						return &c20Fail{"receiver-conversion", "the function does not receive the receiver as the plain Go value of the same content", Describe(want), Describe(got.Recv)}, i
					}
					exp += c20AsData(Catalogue(t, efn, copyAny(got.Recv), copyAny([]any(got.Args)).([]any)), false) + ";"
					if j == len(c.Mixed)-1 && (o.Kind != "ok" || o.Out != exp) {
						return &c20Fail{"result-conversion", "the function's result does not appear as if that Go value had been passed as data", fmt.Sprintf("%q", exp), o.Short()}, i
					}
				}
				if k != len(newCalls) {
					return &c20Fail{"wrong-function", "one call site, several receiver types in one render: more invocations than elements with a registered function", fmt.Sprint(k), fmt.Sprint(len(newCalls))}, i
				}
				if acc != nil {
					acc.Probe("one-call-site-several-receiver-types-in-one-render", 1)
				}
			case registered:
				recv := recvNative(c)
				base := make([]any, len(c.Args))
				for k, a := range c.Args {
					base[k] = Canon(a)
				}
				// one invocation per evaluation of the call site
				var want [][]any
				if len(c.Loop) == 0 {
					want = [][]any{base}
				}
				if c.Chain {
					want = append(want, []any{})
				}
				for _, x := range c.Loop {
					args := append([]any{}, base...)
					for _, k := range c.LoopArgs {
						args = append(args, loopArgCanon(k, x))
					}
					want = append(want, args)
				}
				if len(newCalls) != len(want) {
					return &c20Fail{"registered-not-called", "a registered function is not invoked exactly once per evaluation of the call", fmt.Sprint(len(want), " invocation(s)"), fmt.Sprintf("%d invocations; %s", len(newCalls), o.Short())}, i
				}
				exp := ""
				for k, got := range newCalls {
					if got.Fn != fn {
						return &c20Fail{"wrong-function", "the call reaches another function than the first one registered for (type, name)", fmt.Sprint("fn", fn), fmt.Sprint("fn", got.Fn)}, i
					}
					if c.Chain && k == 1 {
						// the second call's receiver is the first call's result, converted back
						recv = canonNative(Catalogue(c.Recv, fn, copyAny(newCalls[0].Recv), copyAny([]any(newCalls[0].Args)).([]any)), c.Recv)
					}
					if !sameContent(got.Recv, recv) {
						return &c20Fail{"receiver-conversion", "the function does not receive the receiver as the plain Go value of the same content", Describe(recv), Describe(got.Recv)}, i
					}
					if !sameContent([]any(got.Args), want[k]) {
						what := "argument-conversion"
						if len(c.Loop) > 0 {
							what = "argument-conversion-in-loop"
						}
						return &c20Fail{what, "the function does not receive the arguments as plain Go values of the same content", Describe(want[k]), Describe([]any(got.Args))}, i
					}
					// the result prints as if the Go value had been passed as data
					res := Catalogue(c.Recv, fn, copyAny(got.Recv), copyAny([]any(got.Args)).([]any))
					if c.Chain && k == 0 {
						continue // only the outer call's result is printed
					}
					exp += c20AsData(res, false)
					if len(c.Loop) > 0 {
						exp += ";"
					}
				}
				if c.ViaTpl && (c.Site || len(c.Loop) > 0 || c.Chain) {
					exp = "<b>" + exp + "</b>"
				} else if c.ViaTpl {
					// the reference page has the same shape and prints {{ v }} where the call is
					res := Catalogue(c.Recv, fn, copyAny(newCalls[0].Recv), copyAny([]any(newCalls[0].Args)).([]any))
					ref, ferr := w.Tpl.String(fmt.Sprintf("ref%d", i), map[string]any{"v": res})
					if ferr != nil {
						return &c20Fail{"setup", "the reference page does not render", "", ferr.String()}, i
					}
					exp = ref
				}
				if o.Kind != "ok" || o.Out != exp {
					return &c20Fail{"result-conversion", "the function's result does not appear as if that Go value had been passed as data", fmt.Sprintf("%q", exp), o.Short()}, i
				}
			default:
				if o.Kind != "err" {
					return &c20Fail{"unregistered-call-succeeds", "calling an unregistered name is not an error", "an error", o.Short()}, i
				}
				if !strings.Contains(o.Err, c.Name) || !strings.Contains(o.Err, typeConst(c.Recv)) {
					return &c20Fail{"unregistered-error-unspecific", "the error for an unregistered name does not name the function and the receiver type", c.Name + " / " + typeConst(c.Recv), o.Short()}, i
				}
				if len(newCalls) != 0 {
					return &c20Fail{"wrong-function", "an unregistered (type, name) invoked some function", "no invocation", fmt.Sprint(len(newCalls))}, i
				}
			}
		}
	}
	return nil, -1
}

// c20AsData renders a Go value passed as data, through the public API, in a
// scratch state (EvaluateString does not touch the registry).
func c20AsData(v any, viaTpl bool) string {
	data := map[string]any{"v": v}
	var out string
	// called between operations of the history: plain call, no simulation running
	res, err := evalPlain("{{ v }}", data)
	if err != nil {
		return "<error: " + err.Error() + ">"
	}
	out = res
	if viaTpl {
		return "<b>" + out + "</b>"
	}
	return out
}

func (p c20) violation(sc *Scenario, f *c20Fail, at int) *Violation {
	// minimise: drop operations other than the failing one while the same clause fails
	cur := sc.Clone()
	cur.Ops = cur.Ops[:at+1]
	for i := len(cur.Ops) - 2; i >= 0; i-- {
		t := cur.Clone()
		t.Ops = append(append([]Op{}, cur.Ops[:i]...), cur.Ops[i+1:]...)
		t.Files = c20FilesFromOps(t.Ops)
		renumber(t)
		if g, _ := c20Check(t, nil); g != nil && g.what == f.what {
			cur, f = t, g
		}
	}
	var pat []string
	for _, o := range cur.Ops {
		switch {
		case o.Kind == "register":
			pat = append(pat, "reg")
		case o.Kind == "newtemplate":
			pat = append(pat, "load")
		case o.Call != nil && callPanics(*o.Call):
			pat = append(pat, "pcall") // the user's function panics (through a template or not)
		case o.Call != nil && o.Call.ViaTpl:
			pat = append(pat, "tcall")
		default:
			pat = append(pat, "call")
		}
	}
	// long runs of the same kind: the exact count is a threshold of the defect, not part of its identity
	var comp []string
	for i := 0; i < len(pat); {
		j := i
		for j < len(pat) && pat[j] == pat[i] {
			j++
		}
		if j-i >= 8 {
			comp = append(comp, pat[i]+"*many")
		} else {
			comp = append(comp, pat[i:j]...)
		}
		i = j
	}
	pat = comp
	last := cur.Ops[len(cur.Ops)-1]
	typ := last.Recv
	if last.Call != nil {
		typ = last.Call.Recv
	}
	return &Violation{Prop: "C20", Clause: f.clause, Sig: f.what + ":" + typ + ":" + strings.Join(pat, ">"), Scenario: cur,
		Detail: fmt.Sprintf("history %v", opsSummary(cur.Ops)), Expected: f.exp, Got: f.got}
}

func c20FilesFromOps(ops []Op) []File { return c20Files(ops) }

// renumber keeps the page names of template calls in step with op indices.
func renumber(sc *Scenario) {
	for i := range sc.Ops {
		if sc.Ops[i].Call != nil && sc.Ops[i].Call.ViaTpl && !sc.Ops[i].Call.Site {
			sc.Ops[i].Name = fmt.Sprintf("%s%d", c20Page, i)
		}
	}
	sc.Files = c20Files(sc.Ops)
}

func c20Nontrivial(ops []Op) bool {
	seen := map[string]bool{}
	loaded := false
	for _, o := range ops {
		switch {
		case o.Kind == "register":
			k := o.Recv + "/" + o.Name
			if seen[k] {
				return true
			}
			seen[k] = true
		case o.Kind == "newtemplate":
			loaded = true
		case o.Call != nil && loaded:
			return true
		}
	}
	return false
}

func (p c20) runHistory(seed uint64, run int, ops []Op, acc *Acc) *Violation {
	sc := &Scenario{Prop: "C20", Cwd: "/srv/app", Seed: seed, Run: run, Ops: ops}
	renumber(sc)
	if c20Nontrivial(ops) {
		acc.Distinct[hashStr(14695981039346656037, toJSON(ops))] = true
	}
	f, at := c20Check(sc, acc)
	if f == nil {
		return nil
	}
	if f.what == "setup" {
		acc.Probe("setup-failed", 1)
		return nil
	}
	return p.violation(sc, f, at)
}

func (p c20) Run(seed uint64, run int, tier string, acc *Acc) *Violation {
	r := NewRng(Mix(seed, "C20", run))
	acc.Runs++
	EventLog = uint64(run) + 77
	defer func() { acc.Hashes[run] = EventLog }()
	if run == 0 || (tier == "thorough" && run < 8) {
		// exhaustive: all histories of length <= 2 (quick) over a fixed alphabet;
		// thorough additionally sweeps length 3 over a reduced alphabet, split over 7 runs
		var alpha []Op
		for _, typ := range c20Types {
			for _, name := range []string{"foo", c20Names[typ][2]} {
				alpha = append(alpha, Op{Kind: "register", Recv: typ, Name: name, Fn: 0})
				alpha = append(alpha, Op{Kind: "register", Recv: typ, Name: name, Fn: 5})
				c := CallSpec{Recv: typ, Name: name, RecvVal: genRecv(NewRng(uint64(len(alpha))), typ), RecvLit: true}
				alpha = append(alpha, callOp(0, c))
			}
		}
		var first *Violation
		seen := map[string]bool{}
		try := func(h []Op) {
			hh := make([]Op, len(h))
			copy(hh, h)
			if v := p.runHistory(seed, run, hh, acc); v != nil && !seen[v.Sig] {
				seen[v.Sig] = true
				if first == nil {
					first = v
				} else {
					acc.Viol = append(acc.Viol, v)
				}
			}
		}
		if run == 0 {
			for _, a := range alpha {
				try([]Op{a})
				for _, b := range alpha {
					try([]Op{a, b})
				}
			}
			acc.Probe("exhaustive-length<=2-histories", int64(len(alpha)+len(alpha)*len(alpha)))
			acc.Sample(map[string]any{"family": "exhaustive length <= 2", "alphabet": opsSummary(alpha)})
			return first
		}
		// length 3 over the alphabet of one receiver type pair
		typ := c20Types[(run-1)%len(c20Types)]
		var sub []Op
		for _, a := range alpha {
			t := a.Recv
			if a.Call != nil {
				t = a.Call.Recv
			}
			if t == typ || t == c20Types[run%len(c20Types)] {
				sub = append(sub, a)
			}
		}
		for _, a := range sub {
			for _, b := range sub {
				for _, c := range sub {
					try([]Op{a, b, c})
				}
			}
		}
		acc.Probe("exhaustive-length-3-histories", int64(len(sub)*len(sub)*len(sub)))
		return first
	}
	if run == 1 || run == 2 {
		// systematic: registration AFTER a loaded template has already been rendered, per type,
		// with and without a failing load in between; calls through the template and through EvaluateString
		var first *Violation
		seen := map[string]bool{}
		for _, typ := range c20Types {
			for _, viaTpl := range []bool{true, false} {
				for _, badLoad := range []bool{false, true} {
					if (run == 2) != badLoad {
						continue
					}
					c := CallSpec{Recv: typ, Name: "foo", RecvVal: genRecv(r, typ), RecvLit: r.Chance(50), ViaTpl: viaTpl, Args: []Val{VInt(3)}, ArgLit: []bool{true}}
					warm := CallSpec{Recv: "str", Name: "len", RecvVal: VStr("abc"), RecvLit: true, ViaTpl: true}
					h := []Op{{Kind: "newtemplate", Cfg: c20Cfg()}, callOp(1, warm), callOp(2, c)}
					if badLoad {
						h = append(h, Op{Kind: "newtemplate", Cfg: &Cfg{Dir: "no-such-dir", Ext: ".tw"}})
					}
					h = append(h, Op{Kind: "register", Recv: typ, Name: "foo", Fn: r.Intn(8)})
					if badLoad {
						h = append(h, Op{Kind: "newtemplate", Cfg: &Cfg{Dir: "badtpl", Ext: ".tw"}})
					}
					h = append(h, callOp(len(h), c), Op{Kind: "register", Recv: typ, Name: "foo", Fn: 6}, callOp(len(h)+2, c))
					if v := p.runHistory(seed, run, h, acc); v != nil && !seen[v.Sig] {
						seen[v.Sig] = true
						if first == nil {
							first = v
						} else {
							acc.Viol = append(acc.Viol, v)
						}
					}
					acc.Probe("late-registration-histories", 1)
				}
			}
		}
		return first
	}
	if run == 3 {
		// systematic: ONE call site {{ x.NAME() }} of a loaded template, evaluated with a receiver type for
		// which NAME is custom-only, then with a type for which NAME is a built-in, and back
		builtinFor := map[string]string{"abs": "int", "join": "arr", "upper": "str", "ceil": "float", "trim": "str", "len": "str", "reverse": "arr"}
		var first *Violation
		seen := map[string]bool{}
		for _, typ := range c20Types {
			for _, name := range c20Names[typ][4:6] {
				t2 := builtinFor[name]
				if t2 == "" || t2 == typ {
					continue
				}
				site := func(t string) Op {
					return callOp(0, CallSpec{Recv: t, Name: name, RecvVal: genRecv(r, t), ViaTpl: true, Site: true})
				}
				for _, order := range [][]string{{typ, t2, typ}, {t2, typ, t2}} {
					h := []Op{{Kind: "newtemplate", Cfg: c20Cfg()}, {Kind: "register", Recv: typ, Name: name, Fn: r.Intn(8)}}
					for _, t := range order {
						h = append(h, site(t))
					}
					if v := p.runHistory(seed, run, h, acc); v != nil && !seen[v.Sig] {
						seen[v.Sig] = true
						if first == nil {
							first = v
						} else {
							acc.Viol = append(acc.Viol, v)
						}
					}
					acc.Probe("polymorphic-call-site-histories", 1)
				}
			}
		}
		return first
	}
	if run%50 == 7 {
		// a long life with failing user functions: a registered function panics 130 times (the caller
		// recovers each time), through EvaluateString and through a Template; afterwards every
		// registered function must still be callable and an unregistered one must still be reported
		var ops []Op
		typ := Pick(r, c20Types)
		other := Pick(r, c20Types)
		ops = append(ops, Op{Kind: "register", Recv: typ, Name: "boom", Fn: r.Intn(8)}, Op{Kind: "register", Recv: other, Name: "calm", Fn: r.Intn(8)})
		via := r.Chance(50)
		if via {
			ops = append(ops, Op{Kind: "newtemplate", Cfg: c20Cfg()})
		}
		bad := CallSpec{Recv: typ, Name: "boom", RecvVal: genRecv(r, typ), RecvLit: r.Chance(50), Args: []Val{VInt(1), VStr(PanicArg)}, ArgLit: []bool{true, r.Chance(50)}}
		for i := 0; i < 130; i++ {
			c := bad
			c.ViaTpl = via && i%2 == 1
			ops = append(ops, callOp(len(ops), c))
		}
		for i := 0; i < 4; i++ {
			ops = append(ops, callOp(len(ops), genCall(r, typ, "boom", via && i%2 == 0)), callOp(len(ops), genCall(r, other, "calm", via && i%2 == 1)))
		}
		ops = append(ops, callOp(len(ops), genCall(r, typ, "never", false)))
		acc.Probe("histories-with-130-panicking-calls", 1)
		return p.runHistory(seed, run, ops, acc)
	}
	// random history
	n := r.Range(3, 20)
	var ops []Op
	loaded := false
	hasTpl := r.Chance(50)
	for i := 0; i < n; i++ {
		typ := Pick(r, c20Types)
		name := Pick(r, c20Names[typ])
		switch c := r.Intn(10); {
		case c < 4:
			ops = append(ops, Op{Kind: "register", Recv: typ, Name: name, Fn: r.Intn(8)})
		case c < 5 && hasTpl && !loaded:
			ops = append(ops, Op{Kind: "newtemplate", Cfg: c20Cfg()})
			loaded = true
		case c < 5:
			// a load that fails: missing directory or a file with a syntax error
			ops = append(ops, Op{Kind: "newtemplate", Cfg: &Cfg{Dir: Pick(r, []string{"no-such-dir", "badtpl"}), Ext: ".tw"}})
		default:
			via := loaded && r.Chance(40)
			c := genCall(r, typ, name, via)
			if r.Chance(6) && len(c.Loop) == 0 && !c.Chain && !c.Site {
				c.Args = append(c.Args, VStr(PanicArg))
				c.ArgLit = append(c.ArgLit, r.Chance(50))
			}
			ops = append(ops, callOp(len(ops), c))
		}
	}
	if run%61 == 1 {
		acc.Sample(map[string]any{"family": "random", "history": opsSummary(ops)})
	}
	for _, o := range ops {
		if o.Call != nil {
			for _, a := range o.Call.Args {
				if a.T == "arr" || a.T == "map" || a.T == "strs" || a.T == "ints" {
					acc.Probe("nested-argument", 1)
				}
			}
			if o.Call.ViaTpl {
				acc.Probe("call-through-template", 1)
			}
		}
	}
	return p.runHistory(seed, run, ops, acc)
}

func (p c20) Replay(sc *Scenario, acc *Acc) *Violation {
	f, at := c20Check(sc, acc)
	if f == nil {
		return nil
	}
	return p.violation(sc, f, at)
}
