// Package sim is the harness half of the deterministic simulator: scenario
// types, generators, executors, oracles, minimisation and evidence for the
// claimed properties. It is compiled against the instrumented scratch copy of
// textwire (see /verif/check).
package sim

import (
	"encoding/json"
	"fmt"
	"math"
	"net/http"
	"reflect"
	"sort"
	"strings"

	textwire "github.com/textwire/textwire/v2"
	"github.com/textwire/textwire/v2/config"
	"github.com/textwire/textwire/v2/fail"
	"github.com/textwire/textwire/v2/simrt"
)

// ---- the one source of choices -----------------------------------------------

// Rng is xoshiro256**: independent of math/rand and of the Go version.
type Rng struct{ s [4]uint64 }

func splitmix64(x *uint64) uint64 {
	*x += 0x9e3779b97f4a7c15
	z := *x
	z = (z ^ (z >> 30)) * 0xbf58476d1ce4e5b9
	z = (z ^ (z >> 27)) * 0x94d049bb133111eb
	return z ^ (z >> 31)
}

func NewRng(seed uint64) *Rng {
	r := &Rng{}
	for i := range r.s {
		r.s[i] = splitmix64(&seed)
	}
	return r
}

func rotl(x uint64, k uint) uint64 { return (x << k) | (x >> (64 - k)) }

func (r *Rng) Uint64() uint64 {
	res := rotl(r.s[1]*5, 7) * 9
	t := r.s[1] << 17
	r.s[2] ^= r.s[0]
	r.s[3] ^= r.s[1]
	r.s[1] ^= r.s[2]
	r.s[0] ^= r.s[3]
	r.s[2] ^= t
	r.s[3] = rotl(r.s[3], 45)
	return res
}

func (r *Rng) Intn(n int) int {
	if n <= 1 {
		return 0
	}
	return int(r.Uint64() % uint64(n))
}

func (r *Rng) Range(lo, hi int) int { return lo + r.Intn(hi-lo+1) }
func (r *Rng) Chance(pct int) bool  { return r.Intn(100) < pct }
func Pick[T any](r *Rng, xs []T) T  { return xs[r.Intn(len(xs))] }

// Mix derives the seed of run i of a property from VERIF_SEED so that results
// do not depend on the number of workers.
func Mix(seed uint64, prop string, run int) uint64 {
	h := seed ^ 0x51_7c_c1_b7_27_22_0a_95
	for _, c := range []byte(prop) {
		h = (h ^ uint64(c)) * 1099511628211
	}
	h ^= uint64(run+1) * 0x9e3779b97f4a7c15
	return splitmix64(&h)
}

// ---- typed data values (JSON-serialisable, so that replay files are complete) --

// Val is a Go value a caller may pass as template data.
type Val struct {
	T string   `json:"t"`           // nil int int64 int32 uint8 float float32 str bool arr strs ints floats map smap struct ptr chan func
	I int64    `json:"i,omitempty"` // integers
	F float64  `json:"f,omitempty"`
	S string   `json:"s,omitempty"`
	B bool     `json:"b,omitempty"`
	A []Val    `json:"a,omitempty"` // elements
	K []string `json:"k,omitempty"` // keys / field names
	V []Val    `json:"v,omitempty"` // values of keys
}

func VInt(i int) Val               { return Val{T: "int", I: int64(i)} }
func VStr(s string) Val            { return Val{T: "str", S: s} }
func VBool(b bool) Val             { return Val{T: "bool", B: b} }
func VFloat(f float64) Val         { return Val{T: "float", F: f} }
func VNil() Val                    { return Val{T: "nil"} }
func VArr(xs ...Val) Val           { return Val{T: "arr", A: xs} }
func VMap(k []string, v []Val) Val { return Val{T: "map", K: k, V: v} }

// Go builds a fresh native value.
func (v Val) Go() any {
	switch v.T {
	case "nil", "":
		return nil
	case "int":
		return int(v.I)
	case "int64":
		return v.I
	case "int32":
		return int32(v.I)
	case "uint8":
		return uint8(v.I)
	case "float":
		return v.F
	case "float32":
		return float32(v.F)
	case "str":
		return v.S
	case "bool":
		return v.B
	case "arr":
		out := make([]any, len(v.A))
		for i, e := range v.A {
			out[i] = e.Go()
		}
		return out
	case "strs":
		out := make([]string, len(v.A))
		for i, e := range v.A {
			out[i] = e.S
		}
		return out
	case "ints":
		out := make([]int, len(v.A))
		for i, e := range v.A {
			out[i] = int(e.I)
		}
		return out
	case "floats":
		out := make([]float64, len(v.A))
		for i, e := range v.A {
			out[i] = e.F
		}
		return out
	case "map":
		out := make(map[string]any, len(v.K))
		for i, k := range v.K {
			out[k] = v.V[i].Go()
		}
		return out
	case "smap":
		out := make(map[string]string, len(v.K))
		for i, k := range v.K {
			out[k] = v.V[i].S
		}
		return out
	case "imap":
		out := make(map[string]int, len(v.K))
		for i, k := range v.K {
			out[k] = int(v.V[i].I)
		}
		return out
	case "struct":
		fields := make([]reflect.StructField, len(v.K))
		vals := make([]any, len(v.K))
		for i, k := range v.K {
			vals[i] = v.V[i].Go()
			t := reflect.TypeOf(vals[i])
			if t == nil {
				t = reflect.TypeOf((*any)(nil)).Elem()
			}
			fields[i] = reflect.StructField{Name: k, Type: t}
		}
		st := reflect.New(reflect.StructOf(fields)).Elem()
		for i := range v.K {
			if vals[i] != nil {
				st.Field(i).Set(reflect.ValueOf(vals[i]))
			}
		}
		return st.Interface()
	case "named":
		return NamedStruct(int(v.I))
	case "sharedptr":
		return SharedPtr(int(v.I))
	case "intmap":
		out := make(map[int]string, len(v.K))
		for i := range v.K {
			out[i+1] = v.V[i].S
		}
		return out
	case "deep":
		// a map nested v.I levels deep: {"d": {"d": ... {"leaf": v.I}}}
		var cur any = map[string]any{"leaf": int(v.I)}
		for i := int64(0); i < v.I; i++ {
			cur = map[string]any{"d": cur}
		}
		return cur
	case "ptr":
		inner := v.A[0].Go()
		p := reflect.New(reflect.TypeOf(inner))
		p.Elem().Set(reflect.ValueOf(inner))
		return p.Interface()
	case "dyn":
		// one of arbitrarily many distinct struct types (reflect.StructOf): what a process that
		// renders many kinds of view models passes over its lifetime
		ft := reflect.TypeOf("")
		typ := reflect.StructOf([]reflect.StructField{{Name: "Name", Type: ft}, {Name: fmt.Sprintf("Extra%d", v.I), Type: ft}})
		p := reflect.New(typ).Elem()
		p.Field(0).SetString(fmt.Sprintf("dyn%d", v.I))
		p.Field(1).SetString("x")
		return p.Interface()
	case "nilptr":
		// a typed nil pointer: the conversion of data dereferences it
		return (*struct{ Name string })(nil)
	case "nan":
		return math.NaN()
	case "inf":
		return math.Inf(1)
	case "chan":
		return make(chan int)
	case "func":
		return func() {}
	case "complex":
		return complex(v.F, 1)
	}
	panic("sim: unknown Val type " + v.T)
}

// NamedStruct returns values of distinct named struct types that all print as
// "sim.row" (declared in different function scopes) but have different layouts:
// what a cache keyed by type name would confuse.
func NamedStruct(k int) any {
	switch k % 3 {
	case 0:
		type row struct {
			Num   int
			Title string
		}
		return row{7, "Dr"}
	case 1:
		type row struct {
			Title string
			Extra bool
			Num   int
		}
		return row{"Ms", true, 9}
	}
	type row struct {
		Num string
	}
	return row{"n"}
}

// Site is what a long-lived pointer in request data typically points to.
type Site struct {
	Name  string
	Year  int
	Links []string
}

var sharedPtrs = []*Site{{Name: "Acme", Year: 1999, Links: []string{"a", "b"}}, {Name: "Globex", Year: 2020, Links: []string{"x", "y", "z"}}}

// SharedPtr returns the SAME pointer on every call: the one value that several concurrent
// renders legitimately share when a caller passes a long-lived object in the data of each.
func SharedPtr(k int) any { return sharedPtrs[k%len(sharedPtrs)] }

// AltData returns the same data with top-level objects switched between
// map[string]any and struct representation (same content, other native type).
func AltData(d *Val) *Val {
	if d == nil {
		return nil
	}
	out := &Val{T: d.T, K: append([]string{}, d.K...)}
	for _, v := range d.V {
		switch v.T {
		case "map":
			s := Val{T: "struct"}
			seen := map[string]bool{}
			ok := true
			for i, k := range v.K {
				if k == "" || !(k[0] >= 'a' && k[0] <= 'z' || k[0] >= 'A' && k[0] <= 'Z') {
					ok = false
					break
				}
				ck := strings.ToUpper(k[:1]) + k[1:]
				if seen[ck] {
					ok = false
					break
				}
				seen[ck] = true
				s.K = append(s.K, ck)
				s.V = append(s.V, v.V[i])
			}
			if ok {
				v = s
			}
		case "struct":
			v = Val{T: "map", K: v.K, V: v.V}
		}
		out.V = append(out.V, v)
	}
	return out
}

// Opaque reports whether the value contains channels or functions, which
// cannot be compared for equality.
func (v Val) Opaque() bool {
	if v.T == "chan" || v.T == "func" {
		return true
	}
	for _, e := range v.A {
		if e.Opaque() {
			return true
		}
	}
	for _, e := range v.V {
		if e.Opaque() {
			return true
		}
	}
	return false
}

// DataMap converts a "map" Val into the data argument of the public API.
func (v *Val) DataMap() map[string]any {
	if v == nil {
		return nil
	}
	m, _ := v.Go().(map[string]any)
	return m
}

// ---- scenario vocabulary -------------------------------------------------------

type Cfg struct {
	Dir     string `json:"dir"`
	Ext     string `json:"ext"`
	ErrPage string `json:"errpage,omitempty"`
	Debug   bool   `json:"debug,omitempty"`
}

type File struct {
	Path    string `json:"path"`
	Data    string `json:"data,omitempty"`
	Kind    string `json:"kind,omitempty"` // "" file, "dir", "link"
	Target  string `json:"target,omitempty"`
	OpenErr string `json:"openerr,omitempty"` // EACCES ...
	ReadErr string `json:"readerr,omitempty"` // EIO ...
	Short   *int   `json:"short,omitempty"`
	Role    string `json:"role,omitempty"` // page layout component other errorpage (generator's knowledge)
}

type WriterFault struct {
	FailAt int  `json:"failat"` // Write call number (1-based) that fails; 0 = none
	Short  bool `json:"short,omitempty"`
}

// Op is one call of the public API.
type Op struct {
	Kind   string       `json:"kind"` // evalstr evalfile string response newtemplate register
	Name   string       `json:"name,omitempty"`
	Src    string       `json:"src,omitempty"`
	Data   *Val         `json:"data,omitempty"`
	Cfg    *Cfg         `json:"cfg,omitempty"`
	NilCfg bool         `json:"nilcfg,omitempty"`
	W      *WriterFault `json:"w,omitempty"`
	Recv   string       `json:"recv,omitempty"` // register: str arr int float bool
	Fn     int          `json:"fn,omitempty"`   // register: id in the function catalogue
	// PreMutate: before the call the CALLER changes its own long-lived object (SharedPtr(1)) in place:
	// element 0 of a nested slice becomes "v<PreMutate>". A render must reflect the data as it is now.
	PreMutate int       `json:"premutate,omitempty"`
	Call      *CallSpec `json:"call,omitempty"` // C20: structure of the custom-function call in Src / in the page
}

// evalPlain calls EvaluateString directly (no simulation task); used by models
// to render reference values.
func evalPlain(src string, data map[string]any) (string, error) {
	return textwire.EvaluateString(src, data)
}

func (o Op) String() string {
	switch o.Kind {
	case "evalstr":
		return fmt.Sprintf("EvaluateString(%q)", o.Src)
	case "evalfile":
		return fmt.Sprintf("EvaluateFile(%q)", o.Name)
	case "string":
		return fmt.Sprintf("String(%q)", o.Name)
	case "response":
		return fmt.Sprintf("Response(%q)", o.Name)
	case "newtemplate":
		if o.Cfg != nil {
			return fmt.Sprintf("NewTemplate(%+v)", *o.Cfg)
		}
		return "NewTemplate(nil)"
	case "register":
		return fmt.Sprintf("Register%sFunc(%q, fn%d)", o.Recv, o.Name, o.Fn)
	}
	return o.Kind
}

// Obs is what a caller can observe of one call.
type Obs struct {
	Kind  string `json:"kind"` // ok err panic abort
	Out   string `json:"out,omitempty"`
	Err   string `json:"err,omitempty"`
	Msg   string `json:"msg,omitempty"`
	Path  string `json:"path,omitempty"`
	Line  uint   `json:"line,omitempty"`
	Fail  bool   `json:"fail,omitempty"` // Msg/Path/Line come from a *fail.Error
	Body  string `json:"body,omitempty"`
	Wr    int    `json:"writes,omitempty"`
	NilT  bool   `json:"niltpl,omitempty"`
	Mut   string `json:"datamutated,omitempty"`
	Steps int64  `json:"-"`
}

// Key is the comparable form of an observation.
func (o Obs) Key() string {
	return fmt.Sprintf("%s|out=%q|err=%q|msg=%q|path=%q|line=%d|body=%q|wr=%d|nil=%v|mut=%s", o.Kind, o.Out, o.Err, o.Msg, o.Path, o.Line, o.Body, o.Wr, o.NilT, o.Mut)
}

func (o Obs) Short() string {
	s := o.Key()
	if len(s) > 300 {
		s = s[:300] + "..."
	}
	return s
}

// SimWriter is the simulated http.ResponseWriter (seam S4).
type SimWriter struct {
	Fault  *WriterFault
	Chunks []string
	Calls  int
	hdr    http.Header
	Status int
}

func (w *SimWriter) Header() http.Header {
	if w.hdr == nil {
		w.hdr = http.Header{}
	}
	return w.hdr
}
func (w *SimWriter) WriteHeader(code int) { w.Status = code }
func (w *SimWriter) Write(p []byte) (int, error) {
	simrt.Yield(simrt.SiteUser)
	// like net/http's response: a declared Content-Length is enforced, excess bytes are refused
	if cl := w.Header().Get("Content-Length"); cl != "" {
		var n int
		if _, err := fmt.Sscanf(cl, "%d", &n); err == nil {
			written := 0
			for _, c := range w.Chunks {
				written += len(c)
			}
			if written+len(p) > n {
				w.Calls++
				return 0, http.ErrContentLength
			}
		}
	}
	w.Calls++
	w.Chunks = append(w.Chunks, string(p))
	if w.Fault != nil && w.Fault.FailAt == w.Calls {
		if w.Fault.Short {
			return len(p) / 2, fmt.Errorf("simulated short write")
		}
		return 0, fmt.Errorf("simulated write error")
	}
	return len(p), nil
}
func (w *SimWriter) Body() string { return strings.Join(w.Chunks, "") }

// ---- the world: simulated disk + loaded template ------------------------------

type World struct {
	FS  *simrt.MemFS
	Tpl *textwire.Template
	Rec *Recorder
}

func errnoOf(s string) simrtErrno {
	switch s {
	case "":
		return 0
	case "EIO":
		return eIO
	case "EACCES":
		return eACCES
	case "EMFILE":
		return eMFILE
	case "ENOENT":
		return eNOENT
	}
	panic("sim: unknown errno " + s)
}

// BuildFS materialises files on a fresh simulated disk.
func BuildFS(cwd string, files []File) *simrt.MemFS {
	m := simrt.NewMemFS(cwd)
	for _, f := range files {
		var n *simrt.Node
		switch f.Kind {
		case "dir":
			n = simrt.NewDir()
		case "link":
			n = simrt.NewLink(f.Target)
		default:
			n = simrt.NewFile(f.Data)
		}
		n.OpenErr = errnoOf(f.OpenErr)
		n.ReadErr = errnoOf(f.ReadErr)
		if f.Short != nil {
			n.Short = *f.Short
		}
		m.Put(f.Path, n)
	}
	return m
}

// NewWorld resets every package-level variable of textwire (fresh-process
// state) and installs a fresh simulated disk.
func NewWorld(cwd string, files []File) *World {
	simrt.ResetAll()
	w := &World{FS: BuildFS(cwd, files), Rec: &Recorder{}}
	simrt.SetFS(w.FS)
	return w
}

func cfgOf(c *Cfg) *config.Config {
	if c == nil {
		return nil
	}
	return &config.Config{TemplateDir: c.Dir, TemplateExt: c.Ext, ErrorPagePath: c.ErrPage, DebugMode: c.Debug}
}

func failObs(o *Obs, fe *fail.Error) {
	o.Kind = "err"
	o.Fail = true
	o.Msg = fe.Message()
	o.Path = fe.Filepath()
	o.Line = fe.Line()
	o.Err = fe.String()
}

// Do performs one API call on the calling goroutine and reports what the
// caller sees. It must run inside a simulation task (RunOp / scheduler task).
func (w *World) Do(op Op) (o Obs) {
	var data map[string]any
	var ref map[string]any
	if op.Data != nil {
		data = op.Data.DataMap()
		ref = op.Data.DataMap()
	}
	if op.PreMutate != 0 {
		sharedPtrs[1].Links[0] = fmt.Sprintf("v%d", op.PreMutate)
	}
	o.Kind = "ok"
	switch op.Kind {
	case "evalstr":
		out, err := textwire.EvaluateString(op.Src, data)
		if err != nil {
			o.Kind, o.Err = "err", err.Error()
		} else {
			o.Out = out
		}
	case "evalfile":
		out, err := textwire.EvaluateFile(op.Name, data)
		if err != nil {
			o.Kind, o.Err = "err", err.Error()
		} else {
			o.Out = out
		}
	case "string":
		if w.Tpl == nil {
			o.Kind, o.Err = "err", "sim: no template loaded"
			return
		}
		out, fe := w.Tpl.String(op.Name, data)
		if fe != nil {
			failObs(&o, fe)
		} else {
			o.Out = out
		}
	case "response":
		if w.Tpl == nil {
			o.Kind, o.Err = "err", "sim: no template loaded"
			return
		}
		sw := &SimWriter{Fault: op.W}
		err := w.Tpl.Response(sw, op.Name, data)
		o.Body, o.Wr = sw.Body(), sw.Calls
		if err != nil {
			o.Kind, o.Err = "err", err.Error()
		}
	case "newtemplate":
		var c *config.Config
		if !op.NilCfg {
			c = cfgOf(op.Cfg)
		}
		tpl, err := textwire.NewTemplate(c)
		o.NilT = tpl == nil
		if err != nil {
			o.Kind, o.Err = "err", err.Error()
		}
		if tpl != nil && err == nil {
			w.Tpl = tpl
		}
		if tpl != nil && err != nil {
			o.Mut = "non-nil template together with an error"
		}
	case "register":
		err := w.register(op)
		if err != nil {
			o.Kind, o.Err = "err", err.Error()
		}
	default:
		panic("sim: unknown op " + op.Kind)
	}
	if op.Data != nil && !op.Data.Opaque() && !reflect.DeepEqual(data, ref) {
		o.Mut = "caller's data changed"
	}
	return o
}

// Budget is the default step ceiling of one call (see DESIGN §4.2).
const Budget = 2_000_000

// RunOp executes one call as the single task of a simulation.
func (w *World) RunOp(op Op, budget int64) Obs {
	var o Obs
	t := simrt.RunSolo(func() { o = w.Do(op) }, budget)
	return finish(o, t)
}

// EventLog is a running hash over everything that happens in the current run
// (observations, step counts, order and interleaving hashes). Two executions of
// the same run must produce the same value: the determinism self-check.
var EventLog uint64

func logEvent(s string) { EventLog = hashStr(EventLog*31+7, s) }

func finish(o Obs, t *simrt.Task) (res Obs) {
	defer func() { logEvent(res.Key()); logEvent(fmt.Sprint(t.Steps)) }()
	if t.Aborted != "" {
		o = Obs{Kind: "abort", Err: t.Aborted}
	} else if t.Panic != "" {
		o = Obs{Kind: "panic", Err: t.Panic + " @" + t.Stack}
	}
	o.Steps = t.Steps
	return o
}

// ---- misc -----------------------------------------------------------------------

func toJSON(v any) string {
	b, _ := json.Marshal(v)
	return string(b)
}

func sortedKeys[V any](m map[string]V) []string {
	ks := make([]string, 0, len(m))
	for k := range m {
		ks = append(ks, k)
	}
	sort.Strings(ks)
	return ks
}
