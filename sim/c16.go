package sim

import (
	"fmt"
	"strings"

	"github.com/textwire/textwire/v2/simrt"
)

// C16 — a render depends only on its arguments, not on earlier calls. The
// state owned is S5 (call history through package-level state), with S3/S4
// faults occurring inside the history. All other seams are pinned.
type c16 struct{}

func init() { Props["C16"] = c16{} }

func (c16) ID() string    { return "C16" }
func (c16) Level() string { return "exploration" }
func (c16) Runs(tier string) int {
	if tier == "thorough" {
		return 60000
	}
	return 160
}
func (c16) Rule() string {
	return "per run a template tree (layout, components, pages that succeed / fail at run time, optional custom error page, debug on/off, custom functions) is generated and loaded on the simulated disk; an operation alphabet {String, Response (healthy / failing writer), EvaluateString, EvaluateFile (present / missing / EIO)} x {succeeding, failing, unknown name} is derived from it. Every fourth run sweeps the ordered pairs of the alphabet (ALL of them in the thorough tier: exhaustive for length 2 on that tree; a seeded 12% sample in the quick tier), the others run seeded random histories of length 3..12 (one in ten followed by 40 repetitions of two operations). Oracle: each operation's observation equals the observation of the same operation issued first after a fresh reset + identical setup; caller data deep-equal to a private copy; after the history every page re-renders to its baseline. evaluations = operations executed inside histories. distinct_nontrivial = distinct histories (content hash) of length >= 2 that contain a failing operation or a string/file evaluation before a template render."
}
func (c16) Assumptions() []string {
	return []string{
		"the generated reset (re-evaluation of every package-level initialiser of the module) yields fresh-process state; `twsim selftest reset` compares it with a fresh OS process",
		"map order, clock and PRNG seams are pinned to canonical values, so C14 defects cannot surface here",
		"only what a caller can observe is compared (outputs, errors with message/line/path, response bodies); internal variables are not inspected",
	}
}

// Alphabet derives the operations of a tree.
func treeAlphabet(r *Rng, t *Tree, extra []File) []Op {
	var ops []Op
	d := t.Data
	// data that lacks a variable the pages read: late failures
	short := &Val{T: "map"}
	for i, k := range d.K {
		if k == "n1" || k == "s0" || k == "o0" {
			continue
		}
		short.K = append(short.K, k)
		short.V = append(short.V, d.V[i])
	}
	for _, p := range t.Pages {
		ops = append(ops, Op{Kind: "string", Name: p, Data: d})
	}
	if len(t.Pages) > 0 {
		ops = append(ops, Op{Kind: "string", Name: t.Pages[0], Data: short})
		ops = append(ops, Op{Kind: "response", Name: t.Pages[0], Data: d})
		ops = append(ops, Op{Kind: "response", Name: t.Pages[len(t.Pages)-1], Data: short})
		ops = append(ops, Op{Kind: "response", Name: t.Pages[0], Data: short, W: &WriterFault{FailAt: 1}})
	}
	ops = append(ops, Op{Kind: "string", Name: "pagefail", Data: d})
	ops = append(ops, Op{Kind: "response", Name: "pagefail", Data: d})
	ops = append(ops, Op{Kind: "string", Name: "no/such/page", Data: d})
	ops = append(ops, Op{Kind: "response", Name: "no/such/page", Data: nil})
	ops = append(ops, Op{Kind: "string", Name: t.Layouts[0], Data: d})
	ops = append(ops, Op{Kind: "evalstr", Src: "<i>{{ s0 }}</i>{{ n1 + 1 }}", Data: d})
	ops = append(ops, Op{Kind: "evalstr", Src: "<i>{{ undefinedHere }}</i>", Data: d})
	ops = append(ops, Op{Kind: "evalstr", Src: "{{ 1 + }}", Data: nil})
	ops = append(ops, Op{Kind: "evalfile", Name: t.path("components/badge"), Data: &Val{T: "map", K: []string{"label"}, V: []Val{VStr("L")}}})
	ops = append(ops, Op{Kind: "evalfile", Name: t.path("nope"), Data: nil})
	for _, f := range extra {
		ops = append(ops, Op{Kind: "evalfile", Name: f.Path, Data: nil})
	}
	// the same pages with objects in their other native representation (map <-> struct)
	alt := AltData(d)
	for i, p := range t.Pages {
		if i < 2 {
			ops = append(ops, Op{Kind: "string", Name: p, Data: alt})
		}
	}
	// hand-shaped pages: failure inside a component vs outside it; failure in a late loop
	// iteration; dot access on struct vs map; distinct struct types with the same name
	mk := func(k []string, v ...Val) *Val { return &Val{T: "map", K: k, V: v} }
	cd := []string{"den", "top"}
	ops = append(ops,
		Op{Kind: "string", Name: "comppage", Data: mk(cd, VInt(0), VInt(1))},
		Op{Kind: "string", Name: "comppage", Data: mk(cd, VInt(1), VInt(0))},
		Op{Kind: "string", Name: "comppage", Data: mk(cd, VInt(1), VInt(1))},
		Op{Kind: "response", Name: "comppage", Data: mk(cd, VInt(0), VInt(1))},
		Op{Kind: "response", Name: "comppage", Data: mk(cd, VInt(1), VInt(0))},
	)
	ld := []string{"nums", "k", "lim"}
	ops = append(ops,
		Op{Kind: "string", Name: "loopy", Data: mk(ld, Val{T: "ints", A: []Val{VInt(1), VInt(2)}}, VInt(5), VInt(2))},
		Op{Kind: "string", Name: "loopy", Data: mk(ld, Val{T: "ints", A: []Val{VInt(4), VInt(0)}}, VInt(5), VInt(2))},
		Op{Kind: "string", Name: "loopy", Data: mk(ld, Val{T: "arr", A: []Val{VInt(5)}}, VInt(1), VInt(3))},
		Op{Kind: "response", Name: "loopy", Data: mk(ld, Val{T: "ints", A: []Val{VInt(4), VInt(0)}}, VInt(5), VInt(2))},
		Op{Kind: "evalstr", Src: "@each(x in nums){{ 100 / x }},@end", Data: mk([]string{"nums"}, Val{T: "ints", A: []Val{VInt(4), VInt(0)}})},
		Op{Kind: "evalstr", Src: "@each(x in nums){{ 100 / x }},@end", Data: mk([]string{"nums"}, Val{T: "ints", A: []Val{VInt(1), VInt(2)}})},
	)
	// the same page with other VALUES (a cache keyed by name only, a frozen "static" page)
	vd := &Val{T: d.T, K: append([]string{}, d.K...)}
	for i, k := range d.K {
		v := d.V[i]
		switch k {
		case "n1", "n2":
			v = VInt(int(v.I) + 17)
		case "s0", "s1":
			v = VStr(v.S + "~v")
		case "b0":
			v = VBool(!v.B)
		}
		vd.V = append(vd.V, v)
	}
	for i, p := range t.Pages {
		if i < 3 {
			ops = append(ops, Op{Kind: "string", Name: p, Data: vd})
		}
	}
	ops = append(ops,
		Op{Kind: "string", Name: "argonly", Data: d}, Op{Kind: "string", Name: "argonly", Data: vd}, Op{Kind: "string", Name: "argonly", Data: nil},
		Op{Kind: "string", Name: "constarr", Data: d}, Op{Kind: "string", Name: "constarr", Data: vd},
		Op{Kind: "string", Name: "twofuncs", Data: d}, Op{Kind: "string", Name: "twofuncs", Data: vd},
		Op{Kind: "string", Name: "sitepage", Data: &Val{T: "map", K: []string{"site"}, V: []Val{{T: "sharedptr", I: 0}}}},
		Op{Kind: "response", Name: "sitepage", Data: &Val{T: "map", K: []string{"site"}, V: []Val{{T: "sharedptr", I: 0}}}},
		Op{Kind: "evalstr", Src: "{{ site.name }}/{{ site.year }}", Data: &Val{T: "map", K: []string{"site"}, V: []Val{{T: "sharedptr", I: 0}}}},
	)
	// the caller changes its own long-lived object in place between renders
	sp1 := &Val{T: "map", K: []string{"site"}, V: []Val{{T: "sharedptr", I: 1}}}
	ops = append(ops,
		Op{Kind: "string", Name: "sitepage", Data: sp1, PreMutate: 1},
		Op{Kind: "string", Name: "sitepage", Data: sp1, PreMutate: 2},
		Op{Kind: "evalstr", Src: "{{ site.links }}", Data: sp1, PreMutate: 3},
	)
	// deeply nested data (conversion depth), and data values that print alike under %v
	ops = append(ops,
		Op{Kind: "evalstr", Src: "{{ deep.d.d.d.d }}", Data: &Val{T: "map", K: []string{"deep"}, V: []Val{{T: "deep", I: 40}}}},
		Op{Kind: "string", Name: "deeppage", Data: &Val{T: "map", K: []string{"deep"}, V: []Val{{T: "deep", I: 38}}}},
		Op{Kind: "evalfile", Name: t.path("coal"), Data: &Val{T: "map", K: []string{"tags", "q"}, V: []Val{{T: "strs", A: []Val{VStr("go templates")}}, VInt(7)}}},
		Op{Kind: "evalfile", Name: t.path("coal"), Data: &Val{T: "map", K: []string{"tags", "q"}, V: []Val{{T: "strs", A: []Val{VStr("go"), VStr("templates")}}, VStr("7")}}},
	)
	// EvaluateFile on pages that use a layout / components (as a string they cannot link them)
	for i, p := range t.Pages {
		if i < 2 {
			ops = append(ops, Op{Kind: "evalfile", Name: t.path(p), Data: d})
		}
	}
	ops = append(ops, Op{Kind: "evalfile", Name: t.path("comppage"), Data: &Val{T: "map", K: []string{"den", "top"}, V: []Val{VInt(1), VInt(1)}}})
	// one component used twice in a page with different slot content
	ops = append(ops, Op{Kind: "string", Name: "twocards", Data: d}, Op{Kind: "response", Name: "twocards", Data: d})
	// data-less calls that assign top-level variables (a shared root scope would leak them)
	ops = append(ops,
		Op{Kind: "evalstr", Src: "{{ shared = 1 }}{{ shared }}", Data: nil},
		Op{Kind: "evalstr", Src: "{{ shared }}", Data: nil},
		Op{Kind: "evalstr", Src: `{{ shared = "s" }}{{ title = "t" }}{{ shared }}`, Data: nil},
		Op{Kind: "string", Name: "assigner", Data: nil},
		Op{Kind: "string", Name: "reader", Data: nil},
	)
	// float counters and postfix operators on literals, rendered repeatedly
	ops = append(ops, Op{Kind: "string", Name: "floaty", Data: nil}, Op{Kind: "evalstr", Src: "{{ q = 4.5 }}{{ q-- }}|{{ q }}", Data: nil})
	// a custom array function that works in place, on the caller's own []any
	ops = append(ops,
		Op{Kind: "evalstr", Src: "{{ xs.rev() }}|{{ xs }}", Data: mk([]string{"xs"}, Val{T: "arr", A: []Val{VInt(3), VInt(1), VInt(2)}})},
		Op{Kind: "string", Name: "revpage", Data: mk([]string{"xs"}, Val{T: "arr", A: []Val{VStr("a"), VStr("b"), VStr("c")}})},
		Op{Kind: "evalstr", Src: "{{ xs.shuffle().len() }}{{ xs.reverse() }}{{ xs.prepend(0) }}|{{ xs }}", Data: mk([]string{"xs"}, Val{T: "arr", A: []Val{VInt(1), VInt(2), VInt(3)}})},
	)
	ops = append(ops,
		Op{Kind: "string", Name: "dotpage", Data: mk([]string{"user"}, Val{T: "struct", K: []string{"Name", "Age"}, V: []Val{VStr("Ann"), VInt(30)}})},
		Op{Kind: "string", Name: "dotpage", Data: mk([]string{"user"}, Val{T: "map", K: []string{"name", "age"}, V: []Val{VStr("Bob"), VInt(41)}})},
		Op{Kind: "string", Name: "rowpage", Data: mk([]string{"r"}, Val{T: "named", I: 0})},
		Op{Kind: "string", Name: "rowpage", Data: mk([]string{"r"}, Val{T: "named", I: 1})},
		Op{Kind: "evalstr", Src: "{{ r.num }}", Data: mk([]string{"r"}, Val{T: "named", I: 2})},
	)
	// the whole built-in function table, several calls of each function per render
	ops = append(ops, Op{Kind: "string", Name: "allfuncs", Data: BuiltinSweepData()}, Op{Kind: "evalstr", Src: BuiltinSweepSrc, Data: BuiltinSweepData()})
	// chains of 1..8 @elseif branches with and without @else, every branch reachable through v
	for _, v := range []int{0, 3, 5, 9} {
		ops = append(ops, Op{Kind: "string", Name: "branchy", Data: mk([]string{"v"}, VInt(v))})
	}
	ops = append(ops, Op{Kind: "response", Name: "branchy", Data: mk([]string{"v"}, VInt(4))})
	for _, z := range [][2]int{{1, 1}, {0, 1}, {1, 0}} {
		ops = append(ops, Op{Kind: "string", Name: "slotfail", Data: mk([]string{"zf", "zg"}, VInt(z[0]), VInt(z[1]))})
	}
	ops = append(ops, Op{Kind: "response", Name: "slotfail", Data: mk([]string{"zf", "zg"}, VInt(0), VInt(1))})
	// component arguments that are nil in one render and set in another (every position of the sorted keys)
	for _, z := range [][3]Val{{VStr("A"), VStr("B"), VStr("C")}, {VNil(), VStr("B"), VStr("C")}, {VStr("A"), VNil(), VStr("C")}, {VStr("A"), VStr("B"), VNil()}} {
		ops = append(ops, Op{Kind: "string", Name: "threeargs", Data: mk([]string{"pa", "pb", "pc"}, z[0], z[1], z[2])})
	}
	// a page of plain HTML and an argument-less component that reads the caller's variables, with two sets of values
	ops = append(ops, Op{Kind: "string", Name: "inheritpage", Data: mk([]string{"n1", "s0"}, VInt(1), VStr("Ann"))},
		Op{Kind: "string", Name: "inheritpage", Data: mk([]string{"n1", "s0"}, VInt(2), VStr("Bob"))},
		Op{Kind: "string", Name: "inheritpage", Data: nil})
	// one call site whose receiver type, and one branch whose being taken, depend on the data
	ops = append(ops, Op{Kind: "string", Name: "polyfn", Data: mk([]string{"v", "flag"}, VInt(5), VBool(false))},
		Op{Kind: "string", Name: "polyfn", Data: mk([]string{"v", "flag"}, VStr("abc"), VBool(false))},
		Op{Kind: "string", Name: "polyfn", Data: mk([]string{"v", "flag"}, VStr("abc"), VBool(true))})
	// near-miss function names, several of them on one receiver type
	ops = append(ops, Op{Kind: "string", Name: "typo", Data: d}, Op{Kind: "evalstr", Src: "{{ s0.lenn() }}", Data: d},
		Op{Kind: "evalstr", Src: "{{ s0.trimm() }}", Data: d}, Op{Kind: "evalstr", Src: "{{ n1.strr() }}", Data: d})
	// an output well over 4 KiB, rendered more than once
	ops = append(ops, Op{Kind: "string", Name: "bigpage", Data: d}, Op{Kind: "response", Name: "bigpage", Data: d})
	// dot access where the data has the exact spelling AND the capitalised one, after data that has only the latter
	ops = append(ops, Op{Kind: "string", Name: "dotpage", Data: mk([]string{"user"}, Val{T: "map", K: []string{"name", "Name", "age", "Age"}, V: []Val{VStr("low"), VStr("UP"), VInt(1), VInt(2)}})},
		Op{Kind: "string", Name: "dotpage", Data: mk([]string{"user"}, Val{T: "map", K: []string{"Name", "Age"}, V: []Val{VStr("OnlyUp"), VInt(3)}})})
	// a page asked for under its name WITH the extension (not a registered name), more than once
	ops = append(ops, Op{Kind: "string", Name: "pagefail" + t.Cfg.Ext, Data: nil}, Op{Kind: "response", Name: "comppage" + t.Cfg.Ext, Data: nil},
		Op{Kind: "string", Name: "./pagefail", Data: nil})
	// data the conversion rejects (a reserved name), on two different pages and through the string API
	bad := mk([]string{"n1", "loop"}, VInt(1), VInt(2))
	ops = append(ops, Op{Kind: "string", Name: "dotpage", Data: bad}, Op{Kind: "string", Name: "rowpage", Data: bad},
		Op{Kind: "response", Name: "sitepage", Data: bad}, Op{Kind: "evalstr", Src: "<p>{{ n1 }}</p>", Data: bad}, Op{Kind: "evalfile", Name: t.path("dotpage"), Data: bad})
	return ops
}

// branchySrc: @if chains with every number of @elseif branches from 0 to 8, with and without @else.
var branchySrc = func() string {
	var b strings.Builder
	for n := 0; n <= 8; n++ {
		for _, els := range []bool{true, false} {
			fmt.Fprintf(&b, "<p>n%d:@if(v == 100)[if]", n)
			for k := 1; k <= n; k++ {
				fmt.Fprintf(&b, "@elseif(v == %d)[e%d]", k, k)
			}
			if els {
				b.WriteString("@else[else]")
			}
			b.WriteString("@end</p>\n")
		}
	}
	return b.String()
}()

// c16Force, when set, overrides the drawn configuration (the -race companion walks through the
// error page x debug combinations systematically).
var c16Force func(*TreeOpts)

func genC16Tree(r *Rng) (*Scenario, *Tree, []Op) {
	o := TreeOpts{ErrPage: Pick(r, []string{"", "", "valid", "failing", "missing"}), Debug: r.Chance(50),
		Funcs: map[string][]string{"str": {"shout"}, "bool": {"flip"}, "arr": {"rev"}}}
	if c16Force != nil {
		c16Force(&o)
	}
	t := GenTree(r, o)
	sc := &Scenario{Prop: "C16", Cwd: t.Cwd, Files: t.Clean()}
	// a page that always fails late, after producing output
	g := &Gen{R: r, Prefix: "PF", AllFuncs: true}
	g.GenData()
	late := g.Stmts(2, 1) + Pick(r, []string{"{{ undefinedLate }}", "{{ n1 / z0 }}", `{{ 1 + "a" }}`}) + "<p>PF_tail</p>"
	if r.Chance(40) {
		late = `@use("layouts/main")` + "\n" + `@insert("content")` + late + "@end"
	}
	sc.Files = append(sc.Files, File{Path: t.path("pagefail"), Data: late, Role: "page"})
	sc.Files = append(sc.Files,
		File{Path: t.path("components/ratio"), Data: "<i>R{{ 100 / d }}</i>", Role: "component"},
		File{Path: t.path("comppage"), Data: "<p>TOP{{ 7 / top }}</p>\n@component(\"components/ratio\", {d: den})\n<p>END</p>", Role: "page"},
		File{Path: t.path("loopy"), Data: "<ul>@each(x in nums)<li>{{ 100 / x }}</li>@end</ul>\n@for(i = 0; i < lim; i++)[{{ 60 / (k - i) }}]@end", Role: "page"},
		File{Path: t.path("dotpage"), Data: "<p>{{ user.name }}/{{ user.age }}</p>", Role: "page"},
		File{Path: t.path("rowpage"), Data: "<p>{{ r.num }}:{{ r.title }}</p>", Role: "page"},
		File{Path: t.path("twocards"), Data: "@component(\"components/card\", {title: \"A\", n: 1})\n@slot<p>first {{ n1 }}</p>@end\n@slot(\"foot\")<i>f1</i>@end\n@end\n<hr>\n@component(\"components/card\", {title: \"B\", n: 2})\n@slot<p>second {{ s0 }}</p>@end\n@slot(\"foot\")<i>f2</i>@end\n@end\n", Role: "page"},
		File{Path: t.path("layouts/plainlay"), Data: "<html><title>@reserve(\"title\")</title>@reserve(\"content\")</html>", Role: "layout"},
		File{Path: t.path("argonly"), Data: "@use(\"layouts/plainlay\")\n@insert(\"title\", s0 + \" | Site\")\n@insert(\"content\")<p>static</p>@end", Role: "page"},
		File{Path: t.path("constarr"), Data: "{{ xs = [\"s\", \"m\", \"l\"].append(s0) }}@each(x in xs)[{{ x }}]@end{{ [1, 2, 3, 4, 5].append(n1) }}|{{ [7, 8, 9].prepend(n1) }}", Role: "page"},
		File{Path: t.path("twofuncs"), Data: "@for(i = 0; i < 3; i++){{ s0.shout(i) }}{{ b0.flip() }}{{ [1, 2, 3].rev() }}{{ s0.shout(1) }};@end", Role: "page"},
		File{Path: t.path("sitepage"), Data: "<h1>{{ site.name }}</h1>{{ site.year }} {{ site.links }}", Role: "page"},
		File{Path: t.path("deeppage"), Data: "<p>{{ deep.d.d.d }}</p>", Role: "page"},
		File{Path: t.path("coal"), Data: "{{ tags.len() }}|{{ q }}|{{ tags }}", Role: "page"},
		File{Path: t.path("assigner"), Data: "{{ title = \"Oops\" }}{{ count = 7 }}<i>{{ title }}</i>", Role: "page"},
		File{Path: t.path("reader"), Data: "<u>{{ title }}{{ count }}</u>", Role: "page"},
		File{Path: t.path("floaty"), Data: "@for(f = 2.0; f > 0.0; f--)[{{ f }}]@end{{ base = 9.5 }}{{ base-- }}|{{ n = 3 }}{{ n++ }}|{{ g = 1.5 }}{{ g++ }}", Role: "page"},
		File{Path: t.path("revpage"), Data: "<p>{{ xs.rev() }}</p><p>{{ xs }}</p>", Role: "page"},
		File{Path: t.path("allfuncs"), Data: BuiltinSweepSrc, Role: "page"},
		File{Path: t.path("branchy"), Data: branchySrc, Role: "page"},
		File{Path: t.path("components/three"), Data: "<i>[{{ alpha }}|{{ beta }}|{{ gamma }}]</i>", Role: "component"},
		File{Path: t.path("threeargs"), Data: "@component(\"components/three\", {alpha: pa, beta: pb, gamma: pc})", Role: "page"},
		File{Path: t.path("components/inherit"), Data: "<u>INH {{ n1 }}/{{ s0 }}</u>", Role: "component"},
		File{Path: t.path("inheritpage"), Data: "<p>only html</p>\n@component(\"components/inherit\")\n<p>tail</p>", Role: "page"},
		File{Path: t.path("polyfn"), Data: "<p>{{ v.upper() }}</p>@if(flag)@component(\"components/ratio\", {d: 4})@end", Role: "page"},
		File{Path: t.path("typo"), Data: "<p>{{ s0.uper() }}</p>", Role: "page"},
		File{Path: t.path("bigpage"), Data: "<ul>@for(i = 0; i < 220; i++)<li class=\"row\">item {{ i }} of {{ n1 }}</li>@end</ul>", Role: "page"},
		File{Path: t.path("dynpage"), Data: "<p>{{ u.name }}</p>", Role: "page"},
		File{Path: t.path("latepage"), Data: "<p>{{ s0.whisper(1) }}</p>", Role: "page"},
		// one component used three times: without slots, with a slot whose body may fail, without again
		File{Path: t.path("slotfail"), Data: "@component(\"components/card\", {title: \"plain\", n: 0})\n<hr>\n@component(\"components/card\", {title: \"filled\", n: 1})\n@slot<i>{{ 10 / zf }}</i>@end\n@slot(\"foot\")<b>{{ 20 / zg }}</b>@end\n@end\n<hr>\n@component(\"components/card\", {title: \"last\", n: 2})\n@slot(\"foot\")<u>tail</u>@end\n@end\n", Role: "page"},
	)
	// variants of the first page that fail (or not, depending on the data value zf) at a seeded
	// statement boundary — top level, inside if/else, loops, inserts, component slots
	fpTree := GenTree(NewRng(r.Uint64()), TreeOpts{WantFP: true, Pages: 1, Depth: 2, Dir: t.Cfg.Dir, Ext: t.Cfg.Ext})
	fpPage := fpTree.Pages[0]
	fpSrc := fpTree.Files[fpTree.FileOf(fpPage)].Data
	nfp := fpTree.FPs[fpPage]
	for k := 0; k < 3 && nfp > 0; k++ {
		at := r.Intn(nfp)
		sc.Files = append(sc.Files, File{Path: t.path(fmt.Sprintf("fpvar%d", k)), Data: Instantiate(fpSrc, at, "{{ 1 / zf }}"), Role: "page"})
	}
	sc.Extra = map[string]any{"fpdata": toJSON(fpTree.Data)}
	bad := File{Path: t.Cwd + "/other/eio.txt", Data: "x", ReadErr: "EIO", Role: "other"}
	sc.Files = append(sc.Files, bad)
	sc.Setup = []Op{
		{Kind: "register", Recv: "str", Name: "shout", Fn: 3},
		{Kind: "register", Recv: "bool", Name: "flip", Fn: 0},
		{Kind: "register", Recv: "arr", Name: "rev", Fn: 4},
		t.LoadOp(),
	}
	alpha := treeAlphabet(r, t, []File{bad})
	// the failing / succeeding data variants of the failure-point pages
	for k := 0; k < 3 && nfp > 0; k++ {
		for _, zf := range []int{0, 1} {
			d := &Val{T: "map", K: append(append([]string{}, fpTree.Data.K...), "zf"), V: append(append([]Val{}, fpTree.Data.V...), VInt(zf))}
			alpha = append(alpha, Op{Kind: "string", Name: fmt.Sprintf("fpvar%d", k), Data: d})
			if zf == 0 && k == 0 {
				alpha = append(alpha, Op{Kind: "response", Name: fmt.Sprintf("fpvar%d", k), Data: d})
			}
		}
	}
	return sc, t, alpha
}

// setupWorldKeep is setupWorld without the reset: the process keeps whatever
// state earlier operations left behind; only the disk is replaced.
func setupWorldKeep(sc *Scenario) (*World, bool) {
	w := &World{FS: BuildFS(sc.Cwd, sc.Files), Rec: &Recorder{}}
	simrt.SetFS(w.FS)
	pinSeams()
	for _, op := range sc.Setup {
		o := w.RunOp(op, Budget)
		if o.Kind != "ok" {
			return w, false
		}
	}
	return w, true
}

// setupWorld resets, pins the seams, builds the disk and runs the setup ops.
func setupWorld(sc *Scenario) (*World, bool) {
	w := NewWorld(sc.Cwd, sc.Files)
	pinSeams()
	for _, op := range sc.Setup {
		o := w.RunOp(op, Budget)
		if o.Kind != "ok" {
			return w, false
		}
	}
	return w, true
}

func opKey(op Op) string { return toJSON(op) }

type c16Result struct {
	idx      int // index of the first deviating op, -1 none
	got, exp Obs
	setupBad bool
}

// c16Keys returns, per position of a history, the key of that operation's baseline. Registering
// a custom function is configuration, not a call "made before" in the property's sense: the
// baseline of an operation is the operation issued first after a fresh reset + setup + the
// registrations that precede it in the history (and nothing else of the history).
func c16Keys(ops []Op) ([]string, [][]Op) {
	keys := make([]string, len(ops))
	pre := make([][]Op, len(ops))
	var regs []Op
	suffix := ""
	for i, op := range ops {
		keys[i] = opKey(op) + suffix
		pre[i] = regs
		if op.Kind == "register" {
			regs = append(append([]Op{}, regs...), op)
			suffix += "|" + opKey(op)
		}
	}
	return keys, pre
}

// runHistory executes setup + ops and compares each op with its fresh-state baseline.
func c16RunHistory(sc *Scenario, ops []Op, base map[string]Obs, acc *Acc) c16Result {
	keys, pre := c16Keys(ops)
	for i, op := range ops {
		k := keys[i]
		if _, ok := base[k]; !ok {
			w, ok := setupWorld(sc)
			if !ok {
				return c16Result{idx: -1, setupBad: true}
			}
			for _, reg := range pre[i] {
				w.RunOp(reg, Budget)
			}
			base[k] = w.RunOp(op, Budget)
			if acc != nil {
				acc.Steps += base[k].Steps
			}
		}
	}
	w, ok := setupWorld(sc)
	if !ok {
		return c16Result{idx: -1, setupBad: true}
	}
	for i, op := range ops {
		o := w.RunOp(op, Budget)
		if acc != nil {
			acc.Evals++
			acc.Steps += o.Steps
			if op.W != nil && o.Wr > 0 {
				acc.Fault("writer-error", 1)
			}
			for k, n := range w.FS.Fired {
				acc.Fault("disk-"+k, int64(n))
				delete(w.FS.Fired, k)
			}
		}
		if o.Mut != "" {
			// judged absolutely, not against the baseline (which would be mutated the same way)
			exp := o
			exp.Mut = ""
			return c16Result{idx: i, got: o, exp: exp}
		}
		if exp := base[keys[i]]; o.Key() != exp.Key() {
			return c16Result{idx: i, got: o, exp: exp}
		}
	}
	return c16Result{idx: -1}
}

func opClass(op Op, base Obs) string {
	c := op.Kind + ":" + base.Kind
	if op.Kind == "response" && base.Kind == "err" {
		c += ":errorpage"
	}
	if op.W != nil {
		c += ":writerfault"
	}
	if base.Kind == "err" && strings.Contains(base.Err, "template not found") {
		c += ":notfound"
	}
	return c
}

func (p c16) violation(sc *Scenario, ops []Op, base map[string]Obs, res c16Result) *Violation {
	// minimise: drop operations before the affected one while it still deviates
	hist := append([]Op{}, ops[:res.idx+1]...)
	still := func(h []Op) (c16Result, bool) {
		r := c16RunHistory(sc, h, base, nil)
		return r, r.idx == len(h)-1
	}
	for i := len(hist) - 2; i >= 0; i-- {
		cand := append(append([]Op{}, hist[:i]...), hist[i+1:]...)
		if r, ok := still(cand); ok {
			hist = cand
			res = r
		}
	}
	aff := hist[len(hist)-1]
	hkeys, _ := c16Keys(hist)
	sig := ""
	if len(hist) == 1 {
		sig = "self:" + opClass(aff, base[hkeys[0]])
	} else {
		var pre []string
		for i, o := range hist[:len(hist)-1] {
			pre = append(pre, opClass(o, base[hkeys[i]]))
		}
		sig = "after[" + strings.Join(rle(pre), ",") + "] affected[" + opClass(aff, base[hkeys[len(hist)-1]]) + "] field:" + diffFieldFull(res.exp, res.got)
	}
	s := sc.Clone()
	s.Ops = hist
	return &Violation{Prop: "C16", Clause: "an operation's result differs from the result of the same operation issued first in a fresh state",
		Sig: sig, Scenario: s, Detail: fmt.Sprintf("history %v; last operation deviates", opsSummary(hist)),
		Expected: res.exp.Short(), Got: res.got.Short()}
}

// rle collapses runs of equal strings: a,a,a,b -> a x3,b
func rle(xs []string) []string {
	var out []string
	for i := 0; i < len(xs); {
		j := i
		for j < len(xs) && xs[j] == xs[i] {
			j++
		}
		if j-i > 1 {
			out = append(out, fmt.Sprintf("%s x%d", xs[i], j-i))
		} else {
			out = append(out, xs[i])
		}
		i = j
	}
	return out
}

func diffFieldFull(a, b Obs) string {
	switch {
	case a.Mut != b.Mut:
		return "caller-data"
	case a.Body != b.Body:
		return "body"
	}
	return diffField(a, b)
}

func nontrivialHistory(ops []Op, base map[string]Obs) bool {
	if len(ops) < 2 {
		return false
	}
	seenStr := false
	keys, _ := c16Keys(ops)
	for i, o := range ops {
		if base[keys[i]].Kind != "ok" {
			return true
		}
		if o.Kind == "evalstr" || o.Kind == "evalfile" {
			seenStr = true
		} else if seenStr {
			return true
		}
	}
	return false
}

func histHash(sc *Scenario, ops []Op) uint64 {
	return hashStr(sc.Hash(), toJSON(ops))
}

func (p c16) Run(seed uint64, run int, tier string, acc *Acc) *Violation {
	r := NewRng(Mix(seed, "C16", run))
	sc, t, alpha := genC16Tree(r)
	sc.Seed, sc.Run = seed, run
	acc.Runs++
	EventLog = sc.Hash()
	defer func() { acc.Hashes[run] = EventLog }()
	base := map[string]Obs{}
	final := []Op{}
	for _, pg := range t.Pages {
		final = append(final, Op{Kind: "string", Name: pg, Data: t.Data})
	}
	check := func(ops []Op) *Violation {
		res := c16RunHistory(sc, ops, base, acc)
		if res.setupBad {
			acc.Probe("setup-failed", 1)
			return nil
		}
		if nontrivialHistory(ops, base) {
			acc.Distinct[histHash(sc, ops)] = true
		}
		if res.idx >= 0 {
			return p.violation(sc, ops, base, res)
		}
		return nil
	}
	if Mix(seed, "C16family", run)%4 == 0 {
		sc.Family = "pairs"
		acc.Probe("pair-sweeps", 1)
		var first *Violation
		seen := map[string]bool{}
		for _, a := range alpha {
			for _, b := range alpha {
				if tier != "thorough" && !r.Chance(12) {
					continue // quick tier: a seeded ~12% sample of the ordered pairs; thorough: all of them
				}
				acc.Probe("pairs-executed", 1)
				if v := check([]Op{a, b}); v != nil && !seen[v.Sig] {
					seen[v.Sig] = true
					if first == nil {
						first = v
					} else {
						acc.Viol = append(acc.Viol, v)
					}
				}
			}
		}
		acc.Probe("pairs", int64(len(alpha)*len(alpha)))
		if run%97 == 0 || run == 0 {
			acc.Sample(map[string]any{"family": "pairs", "alphabet": opsSummary(alpha), "config": sc.Setup[len(sc.Setup)-1].Cfg})
		}
		return first
	}
	sc.Family = "random"
	n := r.Range(3, 12)
	var ops []Op
	for i := 0; i < n; i++ {
		ops = append(ops, Pick(r, alpha))
	}
	if r.Chance(8) {
		// bounded caches: many distinct names are resolved between two renders of the same name
		a := Pick(r, alpha)
		ops = append(ops, a)
		for i := 0; i < 70; i++ {
			ops = append(ops, Op{Kind: "string", Name: fmt.Sprintf("nf/missing-%d", i), Data: nil})
		}
		ops = append(ops, a, Op{Kind: "string", Name: "pagefail", Data: t.Data}, Op{Kind: "string", Name: "nf/missing-0", Data: nil})
	}
	if r.Chance(10) {
		// threshold effects: the same two operations many times over
		a, b := Pick(r, alpha), Pick(r, alpha)
		for i := 0; i < 40; i++ {
			ops = append(ops, a, b)
		}
	}
	if r.Chance(15) {
		// a custom function is registered in the middle of the history: calls of it before that
		// (they fail: no such function) must not influence calls after it
		late := Op{Kind: "register", Recv: "str", Name: "whisper", Fn: 3}
		use := []Op{
			{Kind: "evalstr", Src: `<i>{{ "Hey".whisper(2) }}</i>`, Data: nil},
			{Kind: "string", Name: "latepage", Data: t.Data},
			{Kind: "response", Name: "latepage", Data: t.Data},
			{Kind: "evalfile", Name: t.path("latepage"), Data: t.Data},
		}
		var h []Op
		for i := 0; i < r.Range(1, 4); i++ {
			h = append(h, Pick(r, alpha))
			if r.Chance(70) {
				h = append(h, Pick(r, use))
			}
		}
		h = append(h, late)
		for i := 0; i < r.Range(1, 4); i++ {
			h = append(h, Pick(r, use))
			if r.Chance(40) {
				h = append(h, Pick(r, alpha))
			}
		}
		ops = append(h, ops...)
		acc.Probe("histories-with-a-registration-in-the-middle", 1)
	}
	ops = append(ops, final...)
	if run%97 == 1 {
		acc.Sample(map[string]any{"family": "random", "history": opsSummary(ops)})
	}
	v := check(ops)
	for i := 1; i < len(ops); i++ {
		a, b := ops[i-1], ops[i]
		if (a.Kind == "evalstr" || a.Kind == "evalfile") && b.Kind == "string" && base[opKey(b)].Kind == "err" {
			acc.Probe("string-eval-before-failing-render", 1)
		}
		if a.Kind == "response" && base[opKey(a)].Kind == "err" {
			acc.Probe("error-page-before-later-op", 1)
		}
	}
	return v
}

func (p c16) Replay(sc *Scenario, acc *Acc) *Violation {
	base := map[string]Obs{}
	res := c16RunHistory(sc, sc.Ops, base, acc)
	if res.setupBad {
		return &Violation{Prop: "C16", Clause: "setup of the scenario fails on this tree", Sig: "setup-failed", Scenario: sc}
	}
	if res.idx < 0 {
		return nil
	}
	return p.violation(sc, sc.Ops, base, res)
}
