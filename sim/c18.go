package sim

import (
	"fmt"
	"path/filepath"
	"sort"
	"strings"

	"github.com/textwire/textwire/v2/fail"
	"github.com/textwire/textwire/v2/lexer"
	"github.com/textwire/textwire/v2/parser"
	"github.com/textwire/textwire/v2/simrt"
)

// C18 — templates are addressable by relative name; a bad file fails loading
// cleanly. The faults owned are S3 in full (the simulated disk).
type c18 struct{}

func init() { Props["C18"] = c18{} }

func (c18) ID() string    { return "C18" }
func (c18) Level() string { return "fault_enumeration" }
func (c18) Runs(tier string) int {
	if tier == "thorough" {
		return 30000
	}
	return 400
}
func (c18) Rule() string {
	return "per run one generated tree on the simulated disk. Even runs ('registry'): 4..10 files over a name alphabet with the adversarial cases (names that merely contain the extension, directories whose name contains it, non-template files, nesting), x a directory spelling from {plain, nested, trailing /, //, parent segments} x extension from {.tw, .tw.html, .html}; the registry observed through String() must equal the reference model {relative path minus extension | regular file whose name ends in the extension and that declares no reserve}, unknown / mis-derived names must be 'template not found', and EvaluateFile(path) must equal EvaluateString(content) for every file. Odd runs ('faults'): a healthy tree (layout, components, pages) and EVERY (template file x static fault) pair one at a time — deleted, directory in its place, dangling symlink, EACCES on open, EIO on read, three kinds of certainly-invalid source, truncation at EVERY prefix length — plus dynamic faults: every k-th file-system operation of the load failing with EIO/EMFILE/EACCES, the file vanishing between walk and read, torn (short) reads. Oracle per DESIGN §6 C18 fault table; hangs are decided by the step budget (20 x fault-free steps + 50000). evaluations = loads executed. distinct_nontrivial = distinct (tree, file, fault) cases whose fault was actually hit by the code under test (fired counter > 0) plus distinct registry trees that contain at least one adversarial name."
}
func (c18) Assumptions() []string {
	return []string{
		"the simulated disk (simrt.MemFS) behaves like a Linux file system for the operations textwire performs; `./check selftest fsfidelity` compares it with the real one on the realisable fault kinds",
		"'syntactically wrong' for a truncated file is decided by the repository's own lexer+parser run on the prefix under the same step budget",
		"an un-referenced page that is missing is not a fault the loader can know about; a syntactically valid prefix is not 'syntactically wrong' (deliberate relaxations, DESIGN §6)",
		"only directory spellings the property lists are generated (plain, nested, trailing slashes, doubled slashes, parent segments); './' prefixes and absolute directories are out of scope",
	}
}

// C18Expect is what the generator knows about the case (stored in the scenario so that replay is self-contained).
type C18Expect struct {
	Kind string `json:"kind"` // registry | fault
	// registry
	Names     []string          `json:"names,omitempty"`     // expected renderable names
	Plain     map[string]string `json:"plain,omitempty"`     // name -> absolute path of a plain page (render == EvaluateString(content))
	NotNames  []string          `json:"not_names,omitempty"` // candidates that must be 'template not found'
	Adversary bool              `json:"adversary,omitempty"`
	LinkOf    map[string]string `json:"link_of,omitempty"` // name -> name of the template its file is a symlink to
	Spelling  string            `json:"spelling,omitempty"`
	Expect    map[string]string `json:"expect,omitempty"` // name -> exact rendering (pages that use a layout)
	// fault
	Fault      string   `json:"fault,omitempty"`
	FaultPath  string   `json:"fault_path,omitempty"`
	FaultName  string   `json:"fault_name,omitempty"` // template name of the faulted file
	Role       string   `json:"role,omitempty"`
	Referenced bool     `json:"referenced,omitempty"`
	RefNames   []string `json:"ref_names,omitempty"` // spellings under which other files reference it
	Others     []string `json:"others,omitempty"`    // other renderable names (must be unchanged when load succeeds)
	Content    string   `json:"content,omitempty"`   // content the loader sees for the faulted file (truncation / garbage)
	Reload     bool     `json:"reload,omitempty"`    // the healthy tree (scenario.prior[0]) was loaded in this process first; no reset in between
}

// ---- registry scenarios -----------------------------------------------------------

type spelling struct{ kind, dir string }

func spellings(base string) []spelling {
	out := []spelling{{"plain", base}, {"trailing-slash", base + "/"}, {"double-trailing", base + "//"}}
	parts := strings.Split(base, "/")
	last := parts[len(parts)-1]
	out = append(out, spelling{"parent-last", base + "/../" + last})
	if len(parts) > 1 {
		out = append(out, spelling{"double-inner", strings.Join(parts, "//")})
		out = append(out, spelling{"parent-first", parts[0] + "/../" + base})
	}
	return out
}

func genC18Registry(r *Rng) *Scenario {
	sc := &Scenario{Prop: "C18", Family: "registry", Cwd: Pick(r, []string{"/srv/app", "/work"})}
	base := Pick(r, []string{"templates", "tpl/views", "t", "a/b/c"})
	ext := Pick(r, []string{".tw", ".tw.html", ".html"})
	sp := Pick(r, spellings(base))
	root := sc.Cwd + "/" + base
	if r.Chance(12) {
		// parent segments that lead back to the working directory itself: the templates
		// live directly in the cwd
		sp = spelling{"parent-to-cwd", Pick(r, []string{"sub/..", "sub/../", "sub/deeper/../.."})}
		root = sc.Cwd
		base = "."
		sc.Files = append(sc.Files, File{Path: sc.Cwd + "/sub/deeper/keep.txt", Data: "x", Role: "other"})
	}
	if sp.kind == "plain" && r.Chance(40) {
		// parent segments that leave the working directory and come back: ../<cwd's name>/<dir>
		sp = spelling{"parent-out", "../" + filepath.Base(sc.Cwd) + "/" + base}
		if r.Chance(40) {
			sp.dir = base + "/" + strings.Repeat("../", len(strings.Split(base, "/"))+1) + filepath.Base(sc.Cwd) + "/" + base
		}
	}
	ex := &C18Expect{Kind: "registry", Plain: map[string]string{}, Spelling: sp.kind}
	seen := map[string]bool{}
	add := func(rel, data, role string) {
		if seen[rel] {
			return
		}
		seen[rel] = true
		sc.Files = append(sc.Files, File{Path: root + "/" + rel, Data: data, Role: role})
	}
	// honest templates
	dirs := []string{"", "", "blog/", "blog/posts/", "x/y/z/", "admin/"}
	if r.Chance(30) {
		// directory names that are patterns to a globbing function
		dirs = append(dirs, "pages/[slug]/", "drafts [old]/", "a*b/", "q?/", "pages/[slug]/deep/", "br[ok/")
	}
	stems := []string{"home", "about", "index", "p1", "list", "a", "t", "tw", "page.v2"}
	n := r.Range(2, 5)
	if r.Chance(3) {
		n = 60 // many files: more than any worker pool has workers, more than small caches hold
		for i := 0; i < 50; i++ {
			stems = append(stems, fmt.Sprintf("p%03d", i))
		}
	}
	for i := 0; i < n; i++ {
		rel := Pick(r, dirs) + Pick(r, stems)
		if seen[rel+ext] {
			continue
		}
		body := fmt.Sprintf("<p>FILE[%s] {{ n1 }}</p>", rel)
		add(rel+ext, body, "page")
		ex.Names = append(ex.Names, rel)
		ex.Plain[rel] = root + "/" + rel + ext
	}
	// contents that a reader could mangle: BOM, CRLF, trailing newline, empty, whitespace only
	odd := []string{"\ufeff<p>bom {{ n1 }}</p>", "line1\r\nline2 {{ n1 }}\r\n", "<p>nl {{ n1 }}</p>\n", "", "  \n\t\n", "no newline at end {{ s0 }}"}
	if r.Chance(60) {
		rel := "odd" + fmt.Sprint(r.Intn(3))
		add(rel+ext, odd[r.Intn(len(odd))], "page")
		if seen[rel+ext] {
			ex.Names = append(ex.Names, rel)
			ex.Plain[rel] = root + "/" + rel + ext
		}
	}
	// a template that is a symbolic link to another template file
	if r.Chance(30) && len(ex.Names) > 0 {
		target := ex.Names[0]
		sc.Files = append(sc.Files, File{Path: root + "/linked" + ext, Kind: "link", Target: filepath.Base(target) + ext, Role: "page"})
		if !strings.Contains(target, "/") {
			ex.Names = append(ex.Names, "linked")
			ex.LinkOf = map[string]string{"linked": target}
		} else {
			sc.Files = sc.Files[:len(sc.Files)-1]
		}
	}
	// a template larger than 1 MiB whose distinguishing content is at its very end
	if r.Chance(4) {
		rel := "huge"
		add(rel+ext, "<pre>"+strings.Repeat("0123456789abcdef", 65540)+"</pre><p>TAIL {{ n1 }}</p>", "page")
		ex.Names = append(ex.Names, rel)
		ex.Plain[rel] = root + "/" + rel + ext
	}
	// dot files and dot directories next to (and as) templates
	if r.Chance(35) {
		sub := Pick(r, []string{"pages/", "blog/", ""})
		add(sub+Pick(r, []string{".gitkeep", ".DS_Store", ".env"}), "x", "other")
		if r.Chance(50) {
			rel := sub + ".hidden"
			add(rel+ext, fmt.Sprintf("<p>FILE[%s] {{ n1 }}</p>", rel), "page")
			ex.Names = append(ex.Names, rel)
			ex.Plain[rel] = root + "/" + rel + ext
		}
		if r.Chance(50) {
			rel := sub + ".cache/x"
			add(rel+ext, fmt.Sprintf("<p>FILE[%s] {{ n1 }}</p>", rel), "page")
			ex.Names = append(ex.Names, rel)
			ex.Plain[rel] = root + "/" + rel + ext
		}
		rel := sub + "zlast"
		if !seen[rel+ext] {
			add(rel+ext, fmt.Sprintf("<p>FILE[%s] {{ n1 }}</p>", rel), "page")
			ex.Names = append(ex.Names, rel)
			ex.Plain[rel] = root + "/" + rel + ext
		}
		ex.Adversary = true
	}
	// a file WITHOUT reserves that another page pulls in with @use: it declares no reserve, so it
	// stays renderable under its own name, whether it sorts before or after its user
	if r.Chance(30) {
		user := Pick(r, []string{"aa_user", "zz_user"})
		add("shared/shell"+ext, "<div>SHELL {{ n1 }}</div>", "page")
		add(user+ext, `@use("shared/shell")`+"\n<p>ignored</p>", "page")
		ex.Names = append(ex.Names, "shared/shell", user)
		ex.Plain["shared/shell"] = root + "/shared/shell" + ext
	}
	// a layout and a page using it
	ex.Expect = map[string]string{}
	if r.Chance(60) {
		add("layouts/main"+ext, `<html>@reserve("content")</html>`, "layout")
		add("withlayout"+ext, `@use("layouts/main")`+"\n"+`@insert("content")<b>WL {{ n1 }}</b>@end`, "page")
		ex.Names = append(ex.Names, "withlayout")
		ex.NotNames = append(ex.NotNames, "layouts/main")
		ex.Expect["withlayout"] = "<html><b>WL 7</b></html>"
		if r.Chance(40) {
			// a layout that itself extends the other layout: it declares a reserve, so it is a layout too
			add("layouts/section"+ext, `@use("layouts/main")`+"\n"+`@insert("content")<section>@reserve("inner")</section>@end`, "layout")
			ex.NotNames = append(ex.NotNames, "layouts/section")
		}
		if r.Chance(50) {
			// the layout referenced through a spelling the file system resolves to the same file
			sp2 := Pick(r, []string{"layouts//main", "./layouts/main", "layouts/../layouts/main", "layouts/./main"})
			add("withlayout2"+ext, `@use("`+sp2+`")`+"\n"+`@insert("content")<b>WL2 {{ n1 }}</b>@end`, "page")
			ex.Names = append(ex.Names, "withlayout2")
			ex.Expect["withlayout2"] = "<html><b>WL2 7</b></html>"
		}
	}
	// a layout and a component whose own NAMES end in the extension (files with the extension
	// twice), next to decoys that carry it once: references resolve to name + extension, always
	if r.Chance(35) {
		add("dbl/base"+ext+ext, `<main data-dbl>@reserve("content")</main>`, "layout")
		add("dbl/base"+ext, `<p>DECOY-LAYOUT {{ n1 }}</p>`, "page")
		add("dbl/chip"+ext+ext, `<i>CHIP {{ v }}</i>`, "component")
		add("dbl/chip"+ext, `<p>DECOY-CHIP {{ n1 }}</p>`, "page")
		add("dbluser"+ext, `@use("dbl/base`+ext+`")`+"\n"+`@insert("content")<b>DU {{ n1 }}</b>@component("dbl/chip`+ext+`", {v: n1})@end`, "page")
		ex.Names = append(ex.Names, "dbluser", "dbl/base", "dbl/chip", "dbl/chip"+ext)
		ex.Plain["dbl/base"] = root + "/dbl/base" + ext
		ex.Plain["dbl/chip"] = root + "/dbl/chip" + ext
		ex.NotNames = append(ex.NotNames, "dbl/base"+ext)
		ex.Expect["dbluser"] = "<main data-dbl><b>DU 7</b><i>CHIP 7</i></main>"
	}
	// adversarial names
	type adv struct{ rel, why string }
	var advs []adv
	switch ext {
	case ".tw":
		advs = []adv{{"notes.tw.bak", "contains"}, {"x.twig", "contains"}, {"old.tw.html", "contains"}, {"v.tw/readme.txt", "dir-contains"}, {"v.tw/inner.tw", "dir-contains-template"}, {"README.md", "other"}, {"a.tw.d/deep.tw", "dir-contains-template"}}
	case ".tw.html":
		advs = []adv{{"page.tw.html.orig", "contains"}, {"page.tw", "prefix-of-ext"}, {"x.tw.htmlx", "contains"}, {"d.tw.html/readme.txt", "dir-contains"}, {"d.tw.html/in.tw.html", "dir-contains-template"}, {"style.css", "other"}}
	default:
		advs = []adv{{"index.html.bak", "contains"}, {"a.htmlx", "contains"}, {"s.html/notes.txt", "dir-contains"}, {"s.html/in.html", "dir-contains-template"}, {"data.json", "other"}}
	}
	na := r.Range(0, 3)
	for i := 0; i < na; i++ {
		a := advs[r.Intn(len(advs))]
		if seen[a.rel] {
			continue
		}
		ex.Adversary = true
		body := fmt.Sprintf("<p>ADV[%s]</p>", a.rel)
		add(a.rel, body, "other")
		if strings.HasSuffix(a.rel, ext) {
			name := strings.TrimSuffix(a.rel, ext)
			ex.Names = append(ex.Names, name)
			ex.Plain[name] = root + "/" + a.rel
			sc.Files[len(sc.Files)-1].Role = "page"
		}
	}
	// candidates that must not be registered: mis-derivations of every file
	expected := map[string]bool{}
	for _, nme := range ex.Names {
		expected[nme] = true
	}
	cands := map[string]bool{"nope": true, "": true, "home/": true}
	for _, f := range sc.Files {
		rel := strings.TrimPrefix(f.Path, root+"/")
		cands[rel] = true
		cands[strings.Replace(rel, ext, "", 1)] = true
		cands[strings.TrimSuffix(rel, filepath.Ext(rel))] = true
		cands[base+"/"+strings.TrimSuffix(rel, ext)] = true
		cands[filepath.Base(base)+"/"+strings.TrimSuffix(rel, ext)] = true
		cands[strings.TrimSuffix(rel, ext)+ext] = true
		cands["/"+strings.TrimSuffix(rel, ext)+"x"] = true
	}
	for c := range cands {
		if !expected[strings.TrimLeft(c, "/")] && !expected[c] {
			ex.NotNames = append(ex.NotNames, c)
		}
	}
	sort.Strings(ex.NotNames)
	sort.Strings(ex.Names)
	sc.C18 = ex
	cfg := Cfg{Dir: sp.dir, Ext: ext, Debug: r.Chance(50)}
	sc.Ops = []Op{{Kind: "newtemplate", Cfg: &cfg}}
	return sc
}

var c18Data = &Val{T: "map", K: []string{"n1", "s0"}, V: []Val{VInt(7), VStr("es")}}

func isNotFound(o Obs) bool {
	return o.Kind == "err" && o.Fail && o.Msg == fail.ErrTemplateNotFound
}

type c18Fail struct {
	sig, clause, detail string
	exp, got            string
}

func checkC18Registry(sc *Scenario, acc *Acc) *c18Fail {
	ex := sc.C18
	w := NewWorld(sc.Cwd, sc.Files)
	pinSeams()
	// the step ceiling scales with the amount of source text (a 1 MiB template is legitimate)
	var Budget int64 = Budget
	for _, f := range sc.Files {
		Budget += 80 * int64(len(f.Data))
	}
	lo := w.RunOp(sc.Ops[0], Budget)
	acc.Evals++
	acc.Steps += lo.Steps
	if lo.Kind != "ok" || lo.NilT {
		return &c18Fail{sig: "registry:load-fails:" + ex.Spelling + ":" + lo.Kind, clause: "loading a healthy tree fails",
			detail: fmt.Sprintf("dir spelling %q (%s), ext %q", sc.Ops[0].Cfg.Dir, ex.Spelling, sc.Ops[0].Cfg.Ext), got: lo.Short()}
	}
	for _, name := range ex.Names {
		o := w.RunOp(Op{Kind: "string", Name: name, Data: c18Data}, Budget)
		if isNotFound(o) {
			cause := "spelling=" + ex.Spelling
			if strings.Contains(name, sc.Ops[0].Cfg.Ext) {
				cause = "extension-occurs-inside-name"
			}
			return &c18Fail{sig: "registry:expected-name-missing:" + cause, clause: "a file whose name ends in the extension is not registered under its relative path without the extension",
				detail: fmt.Sprintf("name %q, dir spelling %q, ext %q", name, sc.Ops[0].Cfg.Dir, sc.Ops[0].Cfg.Ext), got: o.Short()}
		}
		if tgt, ok := ex.LinkOf[name]; ok {
			e := w.RunOp(Op{Kind: "string", Name: tgt, Data: c18Data}, Budget)
			if o.Kind != e.Kind || o.Out != e.Out {
				return &c18Fail{sig: "registry:symlinked-template-differs", clause: "a template file that is a symbolic link to another template does not render like its target",
					detail: fmt.Sprintf("name %q -> %q", name, tgt), exp: e.Short(), got: o.Short()}
			}
		}
		if p, ok := ex.Plain[name]; ok {
			var content string
			for _, f := range sc.Files {
				if f.Path == p {
					content = f.Data
				}
			}
			e := w.RunOp(Op{Kind: "evalstr", Src: content, Data: c18Data}, Budget)
			if o.Kind != e.Kind || o.Out != e.Out {
				return &c18Fail{sig: "registry:wrong-file-under-name:" + ex.Spelling, clause: "a registered name renders something else than the file at that relative path",
					detail: fmt.Sprintf("name %q", name), exp: e.Short(), got: o.Short()}
			}
		}
	}
	for _, name := range sortedKeys(ex.Expect) {
		o := w.RunOp(Op{Kind: "string", Name: name, Data: c18Data}, Budget)
		// whitespace between directives is a matter of taste the property does not fix
		squeeze := func(x string) string { return strings.Join(strings.Fields(x), "") }
		if o.Kind != "ok" || squeeze(o.Out) != squeeze(ex.Expect[name]) {
			return &c18Fail{sig: "registry:wrong-rendering-of-page-with-layout:" + ex.Spelling, clause: "a page that uses a layout / a component by name renders something else than that layout and component (the reference resolved to another file)",
				detail: fmt.Sprintf("name %q", name), exp: fmt.Sprintf("%q", ex.Expect[name]), got: o.Short()}
		}
	}
	for _, name := range ex.NotNames {
		o := w.RunOp(Op{Kind: "string", Name: name, Data: c18Data}, Budget)
		if !isNotFound(o) {
			why := "unknown"
			for _, f := range sc.Files {
				if strings.Contains(f.Path, strings.Trim(name, "/")) || strings.Contains(name, strings.TrimSuffix(filepath.Base(f.Path), filepath.Ext(f.Path))) {
					if f.Role == "layout" {
						why = "layout-renderable"
					} else if f.Role == "other" {
						why = "non-template-registered"
					} else {
						why = "mis-derived-name"
					}
					break
				}
			}
			return &c18Fail{sig: "registry:unexpected-name-registered:" + why, clause: "a name that no file ending in the extension maps to (or a layout) is not reported as 'template not found'",
				detail: fmt.Sprintf("name %q, dir spelling %q, ext %q", name, sc.Ops[0].Cfg.Dir, sc.Ops[0].Cfg.Ext), got: o.Short()}
		}
	}
	// EvaluateFile == EvaluateString(content)
	for _, f := range sc.Files {
		if f.Kind != "" {
			continue // links and directories have no content of their own
		}
		a := w.RunOp(Op{Kind: "evalfile", Name: f.Path, Data: c18Data}, Budget)
		b := w.RunOp(Op{Kind: "evalstr", Src: f.Data, Data: c18Data}, Budget)
		if a.Key() != b.Key() {
			return &c18Fail{sig: "evalfile-differs-from-evalstring", clause: "evaluating a file by path differs from evaluating its content as a string",
				detail: f.Path, exp: b.Short(), got: a.Short()}
		}
	}
	m := w.RunOp(Op{Kind: "evalfile", Name: sc.Cwd + "/does/not/exist.tw", Data: nil}, Budget)
	if m.Kind != "err" || !strings.Contains(m.Err, sc.Cwd+"/does/not/exist.tw") {
		return &c18Fail{sig: "evalfile-missing-not-reported", clause: "EvaluateFile of a missing file does not return an error naming the path", got: m.Short()}
	}
	// The same process has served ANOTHER site before: the same relative directory spelling under
	// another working directory, every file with other content. After a chdir the tree under test is
	// loaded; nothing is reset in between. The registry and every rendering must be what they are in
	// a fresh process (relative names are relative to the directory given NOW).
	single := map[string]Obs{}
	for _, name := range ex.Names {
		single[name] = w.RunOp(Op{Kind: "string", Name: name, Data: c18Data}, Budget)
	}
	oldCwd := "/old" + sc.Cwd
	both := append([]File{}, sc.Files...)
	for _, f := range sc.Files {
		g := f
		g.Path = "/old" + f.Path
		if g.Kind == "" {
			g.Data = strings.NewReplacer("FILE[", "OLDSITE[", "<html>", "<html data-old>", "WL ", "OLDWL ", "SHELL", "OLDSHELL", "ADV[", "OLDADV[").Replace(g.Data)
		}
		both = append(both, g)
	}
	w2 := NewWorld(oldCwd, both)
	pinSeams()
	if o := w2.RunOp(sc.Ops[0], Budget); o.Kind == "ok" && !o.NilT {
		for _, name := range ex.Names {
			w2.RunOp(Op{Kind: "string", Name: name, Data: c18Data}, Budget)
		}
	}
	w2.FS.Cwd = sc.Cwd // chdir
	lo2 := w2.RunOp(sc.Ops[0], Budget)
	acc.Evals++
	acc.Probe("registry-trees-loaded-after-another-site-and-a-chdir", 1)
	if lo2.Kind != lo.Kind || lo2.NilT != lo.NilT {
		return &c18Fail{sig: "registry:after-chdir:load-differs:" + ex.Spelling, clause: "after the process served another directory and changed its working directory, loading the same relative directory gives another result than in a fresh process",
			detail: fmt.Sprintf("dir spelling %q, earlier cwd %q, cwd now %q", sc.Ops[0].Cfg.Dir, oldCwd, sc.Cwd), exp: lo.Short(), got: lo2.Short()}
	}
	for _, name := range ex.Names {
		o := w2.RunOp(Op{Kind: "string", Name: name, Data: c18Data}, Budget)
		if e := single[name]; o.Key() != e.Key() {
			return &c18Fail{sig: "registry:after-chdir:render-differs:" + ex.Spelling, clause: "after the process served another directory and changed its working directory, a template renders something else than in a fresh process",
				detail: fmt.Sprintf("name %q, dir spelling %q, earlier cwd %q, cwd now %q", name, sc.Ops[0].Cfg.Dir, oldCwd, sc.Cwd), exp: e.Short(), got: o.Short()}
		}
	}
	return nil
}

// ---- fault scenarios ----------------------------------------------------------------

var garbage = []string{"<p>ok</p>{{ ) }}", "line1\n{{ 1 + }}", "{{ 1 ~ 2 }}",
	// a comment that lost one of its closing braces, followed by an escaped directive
	"<p>ok</p>{{-- note --}\\@if(true)a@end"}

// parserRejects runs the repository's own lexer and parser on src.
func parserRejects(src, path string, budget int64) (rejects bool, obs Obs) {
	t := simrt.RunSolo(func() {
		p := parser.New(lexer.New(src), path)
		p.ParseProgram()
		rejects = p.HasErrors()
	}, budget)
	return rejects, finish(Obs{Kind: "ok"}, t)
}

// unclosedBlock is an arbiter that shares no code with the repository: a small scanner over the
// directive structure of a template source. It reports true only when the source certainly ends
// inside a block whose opening directive is complete (@if/@each/@for, one-argument @insert, a
// @component followed by @slot, a @slot inside such a component) and that no @end closes. It
// reports false whenever it is not sure (source ends inside {{ }}, a comment, a directive's
// parentheses or a string). The parser of the tree under test is the arbiter for everything else;
// this one exists because a parser that stops demanding @end would otherwise vouch for itself.
func unclosedBlock(src string) bool {
	type frame struct{ kind string }
	var stack []frame
	i, n := 0, len(src)
	skipParens := func(j int) (end int, commas int, ok bool) {
		// src[j] == '('
		depth := 0
		for k := j; k < n; k++ {
			switch c := src[k]; c {
			case '"', '\'':
				q := c
				k++
				for k < n && src[k] != q {
					if src[k] == '\\' {
						k++
					}
					k++
				}
				if k >= n {
					return 0, 0, false
				}
			case '(', '[', '{':
				depth++
			case ')', ']', '}':
				depth--
				if depth == 0 {
					return k + 1, commas, true
				}
			case ',':
				if depth == 1 {
					commas++
				}
			}
		}
		return 0, 0, false
	}
	for i < n {
		if strings.HasPrefix(src[i:], "{{--") {
			j := strings.Index(src[i:], "--}}")
			if j < 0 {
				return false
			}
			i += j + 4
			continue
		}
		if strings.HasPrefix(src[i:], "{{") {
			j := strings.Index(src[i:], "}}")
			if j < 0 {
				return false
			}
			i += j + 2
			continue
		}
		if src[i] == '\\' && i+1 < n && src[i+1] == '@' {
			i += 2
			continue
		}
		if src[i] != '@' {
			i++
			continue
		}
		// directive names are matched as the lexer matches them: the longest known name that the
		// text starts with ("@endLAY" is @end followed by text)
		name := ""
		for _, d := range []string{"continueIf", "component", "continue", "breakIf", "reserve", "elseif", "insert", "break", "slot", "else", "each", "dump", "end", "use", "for", "if"} {
			if strings.HasPrefix(src[i+1:], d) {
				name = d
				break
			}
		}
		j := i + 1 + len(name)
		if name == "" {
			i++
			continue
		}
		if j == n {
			// the name itself may be cut short ("@en"): unless it is a complete @end it closes nothing
			if name == "end" && len(stack) > 0 {
				stack = stack[:len(stack)-1]
			}
			break
		}
		i = j
		switch name {
		case "if", "each", "for":
			if i >= n || src[i] != '(' {
				continue
			}
			end, _, ok := skipParens(i)
			if !ok {
				return false
			}
			i = end
			stack = append(stack, frame{name})
		case "elseif", "use", "reserve", "dump", "breakIf", "continueIf":
			if i < n && src[i] == '(' {
				end, _, ok := skipParens(i)
				if !ok {
					return false
				}
				i = end
			}
		case "insert":
			if i >= n || src[i] != '(' {
				continue
			}
			end, commas, ok := skipParens(i)
			if !ok {
				return false
			}
			i = end
			if commas == 0 {
				stack = append(stack, frame{"insert"})
			}
		case "component":
			if i >= n || src[i] != '(' {
				continue
			}
			end, _, ok := skipParens(i)
			if !ok {
				return false
			}
			i = end
			k := i
			for k < n && (src[k] == ' ' || src[k] == '\n' || src[k] == '\t' || src[k] == '\r') {
				k++
			}
			if k >= n {
				return false // cut right after the directive: block form or not, unknown
			}
			if strings.HasPrefix(src[k:], "@slot") {
				stack = append(stack, frame{"component"})
			} else if src[k] == '@' && n-k < len("@slot") && strings.HasPrefix("@slot", src[k:]) {
				return false
			}
		case "slot":
			if len(stack) == 0 || stack[len(stack)-1].kind != "component" {
				// a placeholder in a component's own file
				if i < n && src[i] == '(' {
					end, _, ok := skipParens(i)
					if !ok {
						return false
					}
					i = end
				}
				continue
			}
			if i < n && src[i] == '(' {
				end, _, ok := skipParens(i)
				if !ok {
					return false
				}
				i = end
			}
			stack = append(stack, frame{"slot"})
		case "end":
			if len(stack) > 0 {
				stack = stack[:len(stack)-1]
			}
		}
	}
	return len(stack) > 0
}

type c18FaultCase struct {
	fileIdx int
	fault   string
	arg     int
}

func references(t *Tree, name string) (bool, []string) {
	var refs []string
	used := false
	alias := ""
	if strings.HasPrefix(name, "layouts/") {
		alias = "~" + strings.TrimPrefix(name, "layouts/")
	}
	if strings.HasPrefix(name, "components/") {
		alias = "~" + strings.TrimPrefix(name, "components/")
	}
	for _, f := range t.Files {
		for _, n := range []string{name, alias} {
			if n == "" {
				continue
			}
			if strings.Contains(f.Data, `("`+n+`"`) {
				used = true
			}
		}
	}
	refs = append(refs, name)
	if alias != "" {
		refs = append(refs, alias)
	}
	return used, refs
}

func applyStaticFault(files []File, idx int, fault string, arg int) ([]File, string) {
	out := append([]File{}, files...)
	f := out[idx]
	content := f.Data
	switch fault {
	case "deleted":
		out = append(out[:idx:idx], out[idx+1:]...)
		return out, ""
	case "dir":
		f = File{Path: f.Path, Kind: "dir", Role: f.Role}
	case "dangling":
		f = File{Path: f.Path, Kind: "link", Target: "gone/nowhere", Role: f.Role}
	case "eacces":
		f.OpenErr = "EACCES"
	case "eio":
		f.ReadErr = "EIO"
		z := 0
		if arg > 0 {
			z = arg
		}
		f.Short = &z
	case "garbage":
		f.Data = garbage[arg%len(garbage)]
		content = f.Data
	case "truncate":
		f.Data = f.Data[:arg]
		content = f.Data
	case "corrupt-same-size":
		// overwrite a window in the middle; size (and the simulated mtime) stay the same
		junk := "{{ ) }}"
		if len(f.Data) >= len(junk) {
			at := arg % (len(f.Data) - len(junk) + 1)
			f.Data = f.Data[:at] + junk + f.Data[at+len(junk):]
		}
		content = f.Data
	case "short-read":
		z := arg
		f.Short = &z
		content = f.Data[:arg]
	}
	out[idx] = f
	return out, content
}

func (p c18) faultScenario(base *Scenario, t *Tree, c c18FaultCase) *Scenario {
	sc := base.Clone()
	f := t.Files[c.fileIdx]
	files, content := applyStaticFault(base.Files, c.fileIdx, c.fault, c.arg)
	sc.Files = files
	name := strings.TrimSuffix(strings.TrimPrefix(f.Path, t.Cwd+"/"+strings.Trim(t.Cfg.Dir, "/")+"/"), t.Cfg.Ext)
	used, refs := references(t, name)
	ex := &C18Expect{Kind: "fault", Fault: c.fault, FaultPath: f.Path, FaultName: name, Role: f.Role, Referenced: used, RefNames: refs, Content: content}
	if c.fault == "garbage" {
		ex.Fault = fmt.Sprintf("garbage%d", c.arg%len(garbage))
	}
	for _, pg := range t.Pages {
		if pg != name {
			ex.Others = append(ex.Others, pg)
		}
	}
	sc.C18 = ex
	return sc
}

// checkC18Fault executes one faulted load and applies the fault table.
func checkC18Fault(sc *Scenario, budget int64, baseline map[string]Obs, acc *Acc) (*c18Fail, bool) {
	ex := sc.C18
	var w *World
	if ex.Reload && len(sc.Prior) > 0 {
		// the healthy tree is loaded (and a page rendered) first; then the disk changes under
		// the running process and the tree is loaded again
		pw := NewWorld(sc.Cwd, sc.Prior[0].Files)
		pinSeams()
		pw.RunOp(sc.Ops[0], Budget)
		for _, o := range ex.Others {
			pw.RunOp(Op{Kind: "string", Name: o, Data: c18Data}, Budget)
		}
		w = &World{FS: BuildFS(sc.Cwd, sc.Files), Rec: pw.Rec}
		simrt.SetFS(w.FS)
	} else {
		w = NewWorld(sc.Cwd, sc.Files)
		pinSeams()
	}
	for _, ff := range sc.FSFaults {
		switch ff.Kind {
		case "failop":
			if w.FS.FailOp == nil {
				w.FS.FailOp = map[int]simrtErrno{}
			}
			w.FS.FailOp[ff.Op] = errnoOf(ff.Errno)
		case "vanish":
			if w.FS.Vanish == nil {
				w.FS.Vanish = map[string]bool{}
			}
			w.FS.Vanish[ff.Path] = true
		}
	}
	lo := w.RunOp(sc.Ops[0], budget)
	if acc != nil {
		acc.Evals++
		acc.Steps += lo.Steps
	}
	fired := 0
	for k, n := range w.FS.Fired {
		fired += n
		if acc != nil {
			acc.Fault(k, int64(n))
		}
	}
	hit := fired > 0 || ex.Fault == "deleted" || strings.HasPrefix(ex.Fault, "garbage") || ex.Fault == "truncate" || ex.Fault == "corrupt-same-size"
	mk := func(clause, what string) *c18Fail {
		fl := ex.Fault
		if ex.Reload {
			fl = "reload+" + fl
		}
		return &c18Fail{sig: fmt.Sprintf("fault:%s:%s:%s", fl, roleClass(ex), what), clause: clause,
			detail: fmt.Sprintf("fault %s on %s (%s, referenced=%v)", ex.Fault, ex.FaultPath, ex.Role, ex.Referenced), got: lo.Short()}
	}
	switch lo.Kind {
	case "abort":
		site := lo.Err
		if i := strings.Index(site, " at "); i >= 0 {
			site = site[i+4:]
		}
		f := mk("loading hangs (step budget exhausted)", "hang@"+site)
		return f, hit
	case "panic":
		site := lo.Err
		if i := strings.LastIndex(site, " @"); i >= 0 {
			site = site[i+2:]
		}
		return mk("loading panics", "panic@"+site), hit
	}
	if lo.Mut != "" {
		return mk("loading returns a non-nil Template together with an error", "template-and-error"), hit
	}
	if lo.Kind == "ok" && lo.NilT {
		return mk("loading returns a nil Template without an error", "nil-without-error"), hit
	}
	mentions := func() bool {
		if strings.Contains(lo.Err, ex.FaultPath) {
			return true
		}
		if ex.Fault == "deleted" || ex.Fault == "dir" || ex.Fault == "vanish" || ex.Fault == "dangling" {
			for _, n := range ex.RefNames {
				if len(n) >= 4 && strings.Contains(lo.Err, n) {
					return true // the name as written in @use / @component (or its resolved alias), however it is quoted
				}
			}
		}
		return false
	}
	mustFail := func(why string) *c18Fail {
		if lo.Kind == "ok" {
			return mk("loading succeeds although a file is "+why, "load-succeeds")
		}
		if !mentions() {
			f := mk("the load error does not identify the faulty file", "error-does-not-name-file")
			f.exp = "an error containing " + ex.FaultPath
			return f
		}
		return nil
	}
	switch {
	case ex.Fault == "failop":
		// any k-th operation failing: (nil, err), or a success that lost nothing
		if lo.Kind == "ok" && fired > 0 && baseline != nil {
			for _, name := range append([]string{ex.FaultName}, ex.Others...) {
				b, ok := baseline[name]
				if !ok {
					continue
				}
				o := w.RunOp(Op{Kind: "string", Name: name, Data: c18Data}, Budget)
				if o.Key() != b.Key() {
					f := mk("a file-system operation of the load failed, loading reported success, and a template is missing or different afterwards", "load-succeeds-with-loss")
					f.exp, f.got = b.Short(), o.Short()
					return f, true
				}
			}
		}
		return nil, fired > 0
	case ex.Fault == "vanish":
		return mustFail("gone when it is read"), hit
	case ex.Fault == "deleted" || ex.Fault == "dir":
		if ex.Referenced {
			return mustFail("missing but referenced"), hit
		}
		// unreferenced page: load succeeds, name unknown, others unchanged
		if lo.Kind != "ok" {
			return mk("loading fails although only an un-referenced page is missing", "load-fails"), hit
		}
		o := w.RunOp(Op{Kind: "string", Name: ex.FaultName, Data: c18Data}, Budget)
		if !isNotFound(o) {
			f := mk("a missing page is not reported as 'template not found'", "missing-page-still-renders")
			f.got = o.Short()
			return f, hit
		}
		for _, other := range ex.Others {
			o := w.RunOp(Op{Kind: "string", Name: other, Data: c18Data}, Budget)
			if b, ok := baseline[other]; ok && o.Key() != b.Key() {
				f := mk("removing an un-referenced page changes the rendering of another page", "others-changed")
				f.exp, f.got = b.Short(), o.Short()
				return f, hit
			}
		}
		return nil, hit
	case ex.Fault == "dangling" || ex.Fault == "eacces" || ex.Fault == "eio":
		return mustFail("unreadable"), hit
	case ex.Fault == "truncate" || ex.Fault == "short-read" || ex.Fault == "corrupt-same-size" || strings.HasPrefix(ex.Fault, "garbage"):
		rej, po := parserRejects(ex.Content, ex.FaultPath, budget)
		if po.Kind != "ok" {
			// the parser itself hangs or panics on this prefix; the load observation above
			// would have shown it if the loader reached the file
			return nil, hit
		}
		if rej {
			return mustFail("syntactically wrong (its prefix is rejected by the parser)"), hit
		}
		if unclosedBlock(ex.Content) {
			if acc != nil {
				acc.Probe("unclosed-block-decided-by-the-independent-scanner", 1)
			}
			if f := mustFail("syntactically wrong (it ends inside a block that no @end closes)"); f != nil {
				f.sig += ":unclosed-block"
				return f, hit
			}
		}
		return nil, hit
	}
	return nil, hit
}

func roleClass(ex *C18Expect) string {
	if ex.Referenced {
		return ex.Role + "-referenced"
	}
	return ex.Role
}

// ---- run --------------------------------------------------------------------------

func (p c18) toViolation(sc *Scenario, f *c18Fail) *Violation {
	return &Violation{Prop: "C18", Clause: f.clause, Sig: f.sig, Detail: f.detail, Expected: f.exp, Got: f.got, Scenario: sc}
}

func (p c18) Run(seed uint64, run int, tier string, acc *Acc) *Violation {
	r := NewRng(Mix(seed, "C18", run))
	acc.Runs++
	if run%2 == 0 {
		sc := genC18Registry(r)
		sc.Seed, sc.Run = seed, run
		EventLog = sc.Hash()
		defer func() { acc.Hashes[run] = EventLog }()
		acc.Probe("registry-trees", 1)
		acc.Probe("spelling/"+sc.C18.Spelling, 1)
		if sc.C18.Adversary {
			acc.Distinct[sc.Hash()] = true
			acc.Probe("registry-trees-with-adversarial-names", 1)
		}
		if run%16 == 0 {
			var names []string
			for _, f := range sc.Files {
				names = append(names, f.Path)
			}
			acc.Sample(map[string]any{"family": "registry", "config": sc.Ops[0].Cfg, "files": names, "expected_names": sc.C18.Names})
		}
		if f := checkC18Registry(sc, acc); f != nil {
			return p.minimise(sc, f)
		}
		return nil
	}
	// fault enumeration on a healthy tree
	t := GenTree(r, TreeOpts{Pages: r.Range(1, 3), Depth: 1, Ext: Pick(r, []string{".tw", ".tw.html"}), NoBig: true, LayoutComp: r.Chance(50), Debug: r.Chance(50)})
	base := &Scenario{Prop: "C18", Family: "faults", Cwd: t.Cwd, Files: t.Clean(), Seed: seed, Run: run}
	base.Ops = []Op{t.LoadOp()}
	EventLog = base.Hash()
	defer func() { acc.Hashes[run] = EventLog }()
	// fault-free load: step count, op count, baselines
	w := NewWorld(base.Cwd, base.Files)
	pinSeams()
	lo := w.RunOp(base.Ops[0], Budget)
	if lo.Kind != "ok" {
		acc.Probe("setup-failed", 1)
		return nil
	}
	nops := w.FS.Ops
	budget := 20*lo.Steps + 50000
	base.Extra = map[string]any{"budget": float64(budget)}
	baseline := map[string]Obs{}
	for _, pg := range t.Pages {
		baseline[pg] = w.RunOp(Op{Kind: "string", Name: pg, Data: c18Data}, Budget)
	}
	seen := map[string]bool{}
	var first *Violation
	report := func(sc *Scenario, f *c18Fail) {
		if f == nil || seen[f.sig] {
			return
		}
		seen[f.sig] = true
		v := p.minimise(sc, f)
		if first == nil {
			first = v
		} else {
			acc.Viol = append(acc.Viol, v)
		}
	}
	healthy := base.Clone()
	reload := false
	doCase := func(c c18FaultCase, dyn []FSFault, faultName string) {
		sc := p.faultScenario(base, t, c)
		if faultName != "" {
			sc.C18.Fault = faultName
		}
		if reload {
			sc.C18.Reload = true
			sc.Prior = []*Scenario{healthy}
			acc.Probe("cases-after-a-healthy-load-in-the-same-process", 1)
		}
		sc.FSFaults = dyn
		f, hit := checkC18Fault(sc, budget, baseline, acc)
		if hit {
			acc.Distinct[hashStr(base.Hash(), fmt.Sprint(c, dyn, reload))] = true
		}
		acc.Probe("cases/"+strings.TrimRight(sc.C18.Fault, "0123456789"), 1)
		if sc.C18.Referenced {
			acc.Probe("fault-on-referenced-layout-or-component", 1)
		}
		report(sc, f)
	}
	for i, f := range t.Files {
		for _, fault := range []string{"deleted", "dir", "dangling", "eacces", "eio"} {
			doCase(c18FaultCase{i, fault, 0}, nil, "")
		}
		for g := range garbage {
			doCase(c18FaultCase{i, "garbage", g}, nil, "")
		}
		content := base.Files[i].Data
		for n := 0; n < len(content); n++ {
			doCase(c18FaultCase{i, "truncate", n}, nil, "")
		}
		// torn reads at a few seeded lengths, EIO after a partial read, vanish after the walk
		for k := 0; k < 3 && len(content) > 0; k++ {
			doCase(c18FaultCase{i, "short-read", r.Intn(len(content))}, nil, "")
		}
		if len(content) > 1 {
			doCase(c18FaultCase{i, "eio", 1 + r.Intn(len(content)-1)}, nil, "")
		}
		doCase(c18FaultCase{i, "none", 0}, []FSFault{{Kind: "vanish", Path: f.Path}}, "vanish")
		for k := 0; k < 3 && len(content) >= 7; k++ {
			doCase(c18FaultCase{i, "corrupt-same-size", r.Intn(len(content))}, nil, "")
		}
		// the same static faults appearing AFTER a healthy load in the same process
		reload = true
		for _, fault := range []string{"deleted", "dir", "dangling", "eacces", "eio"} {
			doCase(c18FaultCase{i, fault, 0}, nil, "")
		}
		doCase(c18FaultCase{i, "garbage", r.Intn(3)}, nil, "")
		for k := 0; k < 3 && len(content) >= 7; k++ {
			doCase(c18FaultCase{i, "corrupt-same-size", r.Intn(len(content))}, nil, "")
		}
		for k := 0; k < 4 && len(content) > 0; k++ {
			doCase(c18FaultCase{i, "truncate", r.Intn(len(content))}, nil, "")
		}
		reload = false
	}
	// every k-th file-system operation fails
	for k := 0; k < nops; k++ {
		for _, e := range []string{"EIO", "EMFILE", "EACCES"} {
			doCase(c18FaultCase{0, "none", 0}, []FSFault{{Kind: "failop", Op: k, Errno: e}}, "failop")
		}
	}
	if run%16 == 1 {
		var names []string
		for _, f := range t.Files {
			names = append(names, fmt.Sprintf("%s (%s, %d bytes)", f.Path, f.Role, len(f.Data)))
		}
		acc.Sample(map[string]any{"family": "faults", "config": t.Cfg, "files": names, "fault_free_load_steps": lo.Steps, "fs_ops_in_load": nops,
			"faults": "each file x {deleted, dir, dangling, eacces, eio, garbage x3, truncate at every prefix, short-read x3, eio after partial read, vanish}; each fs op x {EIO, EMFILE, EACCES}"})
	}
	return first
}

// c18FailopBaseline: the "reported success but lost a template" clause of the k-th-operation
// faults compares with the fault-free load of the same files (nil for every other fault).
func c18FailopBaseline(sc *Scenario) map[string]Obs {
	if sc.C18 == nil || sc.C18.Fault != "failop" {
		return nil
	}
	w := NewWorld(sc.Cwd, sc.Files)
	pinSeams()
	if lo := w.RunOp(sc.Ops[0], Budget); lo.Kind != "ok" {
		return nil
	}
	baseline := map[string]Obs{}
	for _, name := range append([]string{sc.C18.FaultName}, sc.C18.Others...) {
		if name != "" {
			baseline[name] = w.RunOp(Op{Kind: "string", Name: name, Data: c18Data}, Budget)
		}
	}
	return baseline
}

// minimise drops files that are not needed for the same signature.
func (p c18) minimise(sc *Scenario, f *c18Fail) *Violation {
	cur := sc
	recheck := func(s *Scenario) *c18Fail {
		tmp := NewAcc("C18")
		if s.C18.Kind == "registry" {
			return checkC18Registry(s, tmp)
		}
		ff, _ := checkC18Fault(s, c18Budget(s), c18FailopBaseline(s), tmp)
		return ff
	}
	for i := len(cur.Files) - 1; i >= 0; i-- {
		if cur.C18.Kind == "fault" && (cur.Files[i].Path == cur.C18.FaultPath || cur.C18.Reload) {
			continue
		}
		t := cur.Clone()
		t.Files = append(append([]File{}, cur.Files[:i]...), cur.Files[i+1:]...)
		if t.C18.Kind == "registry" {
			// keep the expectation consistent with the files
			drop := cur.Files[i].Path
			for n, pth := range t.C18.Plain {
				if pth == drop {
					delete(t.C18.Plain, n)
					t.C18.Names = removeStr(t.C18.Names, n)
					t.C18.NotNames = append(t.C18.NotNames, n)
				}
			}
			if cur.Files[i].Role == "layout" || strings.Contains(cur.Files[i].Data, "@use(") {
				continue
			}
		} else {
			if cur.C18.Fault == "deleted" || cur.C18.Fault == "dir" || cur.Files[i].Role != "page" {
				// referenced-ness could change
				continue
			}
			t.C18.Others = removeStr(t.C18.Others, strings.TrimSuffix(filepath.Base(cur.Files[i].Path), filepath.Ext(cur.Files[i].Path)))
		}
		if g := recheck(t); g != nil && g.sig == f.sig {
			cur, f = t, g
		}
	}
	return p.toViolation(cur, f)
}

func removeStr(xs []string, x string) []string {
	var out []string
	for _, s := range xs {
		if s != x {
			out = append(out, s)
		}
	}
	return out
}

// c18Budget recomputes the relative step budget from the scenario's own
// fault-free variant when possible; replay uses the absolute ceiling otherwise.
func c18Budget(sc *Scenario) int64 {
	if sc.C18 != nil && sc.C18.Kind == "fault" {
		if b, ok := sc.Extra["budget"].(float64); ok && b > 0 {
			return int64(b)
		}
	}
	return 400000
}

func (p c18) Replay(sc *Scenario, acc *Acc) *Violation {
	if sc.C18 == nil {
		return &Violation{Prop: "C18", Clause: "bad replay file", Sig: "bad-replay", Scenario: sc}
	}
	var f *c18Fail
	if sc.C18.Kind == "registry" {
		f = checkC18Registry(sc, acc)
	} else {
		f, _ = checkC18Fault(sc, c18Budget(sc), c18FailopBaseline(sc), acc)
	}
	if f == nil {
		return nil
	}
	return p.toViolation(sc, f)
}
