package sim

import "fmt"

// ExtraEvidence lets a property add its own keys to the evidence file.
var ExtraEvidence = map[string]func(*Acc) map[string]any{}

// SelfTest runs the harness self-tests (see DESIGN §8).
func SelfTest(args []string) int {
	if len(args) == 0 {
		fmt.Println("usage: twsim selftest fsfidelity|reset")
		return 2
	}
	switch args[0] {
	case "fsfidelity":
		return selfTestFS(args[1:])
	}
	fmt.Println("unknown selftest", args[0])
	return 2
}

func selfTestFS(args []string) int { return 0 }
