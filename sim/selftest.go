package sim

import (
	"encoding/json"
	"flag"
	"fmt"
	"os"
	"os/exec"
	"path/filepath"
	"strings"

	"github.com/textwire/textwire/v2/simrt"
)

// ExtraEvidence lets a property add its own keys to the evidence file.
var ExtraEvidence = map[string]func(*Acc) map[string]any{}

// SelfTest runs the harness self-tests (see DESIGN §8).
func SelfTest(args []string) int {
	if len(args) == 0 {
		fmt.Println("usage: twsim selftest fsfidelity|reset|reset-child ...")
		return 2
	}
	switch args[0] {
	case "fsfidelity":
		return selfTestFS(args[1:])
	case "reset":
		return selfTestReset(args[1:])
	case "reset-child":
		return selfTestResetChild(args[1:])
	}
	fmt.Println("unknown selftest", args[0])
	return 2
}

// ---- reset: "first op in a fresh OS process" == "first op after ResetAll" --------

func resetScenario(seed uint64, run int) (*Scenario, []Op) {
	r := NewRng(Mix(seed, "selftest-reset", run))
	sc, _, alpha := genC16Tree(r)
	return sc, alpha
}

func selfTestResetChild(args []string) int {
	fs := flag.NewFlagSet("reset-child", flag.ExitOnError)
	seed := fs.Uint64("seed", 1, "")
	run := fs.Int("run", 0, "")
	dirty := fs.Bool("dirty", false, "")
	fs.Parse(args)
	sc, alpha := resetScenario(*seed, *run)
	if *dirty {
		// do unrelated things first: another tree, other registrations, failing renders, string evaluations
		other, _, oalpha := genC16Tree(NewRng(Mix(*seed, "selftest-dirty", *run)))
		if w, ok := setupWorld(other); ok {
			for _, op := range oalpha {
				w.RunOp(op, Budget)
			}
			w.RunOp(Op{Kind: "register", Recv: "int", Name: "extra", Fn: 1}, Budget)
			w.RunOp(Op{Kind: "newtemplate", Cfg: &Cfg{Dir: "elsewhere//", Ext: ".x", ErrPage: "e", Debug: true}}, Budget)
		}
	}
	var keys []string
	for _, op := range alpha {
		w, ok := setupWorld(sc) // includes ResetAll
		if !ok {
			keys = append(keys, "setup-failed")
			continue
		}
		keys = append(keys, w.RunOp(op, Budget).Key())
	}
	b, _ := json.Marshal(keys)
	fmt.Println(string(b))
	return 0
}

func selfTestReset(args []string) int {
	fs := flag.NewFlagSet("reset", flag.ExitOnError)
	n := fs.Int("n", 12, "")
	seed := fs.Uint64("seed", 1, "")
	fs.Parse(args)
	self, _ := os.Executable()
	bad := 0
	total := 0
	for i := 0; i < *n; i++ {
		a, err1 := exec.Command(self, "selftest", "reset-child", "-seed", fmt.Sprint(*seed), "-run", fmt.Sprint(i)).Output()
		b, err2 := exec.Command(self, "selftest", "reset-child", "-seed", fmt.Sprint(*seed), "-run", fmt.Sprint(i), "-dirty").Output()
		if err1 != nil || err2 != nil {
			fmt.Println("selftest reset: child failed:", err1, err2)
			return 2
		}
		var ka, kb []string
		json.Unmarshal(a, &ka)
		json.Unmarshal(b, &kb)
		if len(ka) == 0 || len(ka) != len(kb) {
			fmt.Println("selftest reset: children disagree on the number of operations")
			return 2
		}
		for j := range ka {
			total++
			if ka[j] != kb[j] {
				bad++
				fmt.Printf("selftest reset: run %d op %d differs:\n  fresh process: %s\n  after reset:   %s\n", i, j, ka[j], kb[j])
			}
		}
	}
	fmt.Printf("selftest reset: %d operations compared between a fresh OS process and a dirty process after simrt.ResetAll(): %d differences; reset covers %d registered initialisers\n", total, bad, len(simrt.ResetPackages()))
	if bad > 0 {
		return 2
	}
	return 0
}

// ---- fsfidelity: the simulated disk against the real one ---------------------------

func selfTestFS(args []string) int {
	fs := flag.NewFlagSet("fsfidelity", flag.ExitOnError)
	n := fs.Int("n", 10, "")
	seed := fs.Uint64("seed", 1, "")
	dir := fs.String("dir", "", "scratch directory on the real disk")
	fs.Parse(args)
	if *dir == "" {
		fmt.Println("selftest fsfidelity: -dir required")
		return 2
	}
	root, _ := filepath.Abs(*dir)
	cases, diffs := 0, 0
	for i := 0; i < *n; i++ {
		r := NewRng(Mix(*seed, "selftest-fs", i))
		t := GenTree(r, TreeOpts{Pages: 2, Depth: 1})
		base := t.Clean()
		type cs struct {
			idx   int
			fault string
			arg   int
		}
		var list []cs
		list = append(list, cs{-1, "none", 0})
		for fi := range base {
			for _, f := range []string{"deleted", "dir", "dangling", "garbage"} {
				list = append(list, cs{fi, f, r.Intn(3)})
			}
			if len(base[fi].Data) > 2 {
				list = append(list, cs{fi, "truncate", 1 + r.Intn(len(base[fi].Data)-1)})
			}
		}
		// registry-style oddities as well
		for ci, c := range list {
			files := base
			if c.idx >= 0 {
				files, _ = applyStaticFault(base, c.idx, c.fault, c.arg)
			}
			ops := []Op{t.LoadOp()}
			for _, p := range t.Pages {
				ops = append(ops, Op{Kind: "string", Name: p, Data: t.Data})
			}
			ops = append(ops, Op{Kind: "evalfile", Name: t.path(t.Pages[0]), Data: t.Data}, Op{Kind: "evalfile", Name: t.path("nope"), Data: nil})
			// simulated
			var simObs []string
			w := NewWorld(t.Cwd, files)
			pinSeams()
			for _, op := range ops {
				simObs = append(simObs, w.RunOp(op, Budget).Key())
			}
			// real
			caseRoot := filepath.Join(root, fmt.Sprintf("c%d_%d", i, ci))
			for _, f := range files {
				p := filepath.Join(caseRoot, f.Path)
				os.MkdirAll(filepath.Dir(p), 0o755)
				switch f.Kind {
				case "dir":
					os.MkdirAll(p, 0o755)
				case "link":
					os.Symlink(f.Target, p)
				default:
					os.WriteFile(p, []byte(f.Data), 0o644)
				}
			}
			os.MkdirAll(filepath.Join(caseRoot, t.Cwd), 0o755)
			if err := os.Chdir(filepath.Join(caseRoot, t.Cwd)); err != nil {
				fmt.Println("selftest fsfidelity:", err)
				return 2
			}
			simrt.ResetAll()
			simrt.SetFS(nil)
			pinSeams()
			rw := &World{Rec: &Recorder{}}
			var realObs []string
			for _, op := range ops {
				if op.Kind == "evalfile" {
					op.Name = filepath.Join(caseRoot, op.Name)
				}
				k := rw.RunOp(op, Budget).Key()
				realObs = append(realObs, strings.ReplaceAll(k, caseRoot, ""))
			}
			os.Chdir(root)
			os.RemoveAll(caseRoot)
			cases++
			for j := range simObs {
				if simObs[j] != realObs[j] {
					diffs++
					fmt.Printf("selftest fsfidelity: tree %d case %d (%s on file %d) op %s:\n  simulated disk: %s\n  real disk:      %s\n", i, ci, c.fault, c.idx, ops[j], simObs[j], realObs[j])
					break
				}
			}
		}
	}
	fmt.Printf("selftest fsfidelity: %d (tree, fault) cases loaded and rendered on the simulated and on the real disk: %d differences\n", cases, diffs)
	if diffs > 0 {
		return 2
	}
	return 0
}
