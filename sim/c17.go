package sim

import (
	"fmt"
	"html"
	"os"
	"path/filepath"
	"strings"
)

// C17 — Response writes the page or exactly one error page, and leaks nothing
// unless debugging. Faults owned: the failure point of the render (the
// analogue of a crash point for an atomic write), the configuration matrix and
// S4 (the caller's writer).
type c17 struct{}

func init() { Props["C17"] = c17{} }

func (c17) ID() string    { return "C17" }
func (c17) Level() string { return "fault_enumeration" }
func (c17) Runs(tier string) int {
	if tier == "thorough" {
		return 12000
	}
	return 160
}
func (c17) Rule() string {
	return "per run one generated tree whose pages carry unique sentinels in every text chunk and a failure-point placeholder at every statement boundary (top level, inside if/else, loops, inserts, component slots). For one page ALL cells of {each failure point p (a failing statement of one of three kinds substituted at p), no failure, template does not exist} x {debug on, off} x {no custom error page, valid one, one that fails at run time, missing one} x {healthy writer, write error on call 1, short write on call 1} are executed, each from reset + NewTemplate(cfg). Reference model (DESIGN §6 C17): String() run alone decides success/failure; on success the offered bytes equal its output and nil is returned; on failure a non-nil error, no sentinel of the failed page, body == custom page rendering (debug off, working custom page) / empty-or-built-in (custom page fails or is missing) / built-in page for (error, debug) otherwise, where the built-in page is obtained by rendering the repository's own default-error-page.tw through EvaluateString; debug off => neither message, path, template directory nor cwd in the body (raw and HTML-unescaped); debug on => message, path and line present. Under writer faults only: no panic, and the offered bytes are a prefix of what a healthy writer is offered (no second page). evaluations = Response calls. distinct_nontrivial = distinct (tree, page, failure point, debug, custom) cells in which the render failed after at least one sentinel chunk had been produced."
}
func (c17) Assumptions() []string {
	return []string{
		"String() run alone on the same loaded state is the reference for whether and how a render fails",
		"'offered bytes' are the concatenated arguments of Write; nothing is asserted about the return value under writer faults (the property is silent there)",
		"pages are sampled by seed; the cell matrix of each sampled page is exhausted",
	}
}

var defaultErrPageSrc string

func loadDefaultErrPage() string {
	if defaultErrPageSrc != "" {
		return defaultErrPageSrc
	}
	root := os.Getenv("TWSIM_REPO")
	b, err := os.ReadFile(filepath.Join(root, "textwire", "default-error-page.tw"))
	if err != nil {
		panic("sim: cannot read the repository's default error page (TWSIM_REPO): " + err.Error())
	}
	defaultErrPageSrc = string(b)
	return defaultErrPageSrc
}

// names for the custom error page, including ones whose last characters also occur in the extension
var errPageNames = []string{"errors/500", "errors/default", "about", "fail", "errors/html", "oops.page"}

var failingStmts = []string{"{{ 1 / z0 }}", "{{ undefinedAtFailurePoint }}", `{{ 7 + "seven" }}`, `{{ 7 % "x" }}`,
	// the failing expression is a LATER element of a list / a later argument of a call
	"{{ [1, 2, undefinedInList] }}", `{{ [7, 8].join("-", undefinedLaterArg) }}`, `{{ x9 = [true, 1 / z0] }}`,
	// an error message several hundred characters long
	"{{ " + strings.Repeat("veryLongUndefinedIdentifier", 16) + " }}"}

type c17Cell struct {
	Page   string `json:"page"`
	FP     int    `json:"fp"`   // -1 no failure, -2 template does not exist, -3 unconvertible data, -4 the custom error page itself requested with unconvertible data, -5 a page that assigns variables and fails, rendered without data, -6 a page that succeeds and shows text looking like an error
	Kind   int    `json:"kind"` // failing statement kind
	Debug  bool   `json:"debug"`
	Custom string `json:"custom"`        // "" valid failing missing late
	Reg    bool   `json:"reg,omitempty"` // custom=late: the function the error page calls is registered before this cell's load
}

func (c c17Cell) class() string {
	out := "fail"
	if c.FP == -1 {
		out = "ok"
	} else if c.FP == -2 {
		out = "notfound"
	} else if c.FP == -3 {
		out = "baddata"
	} else if c.FP == -4 {
		out = "errorpage-itself"
	} else if c.FP == -5 {
		out = "fail-nodata"
	} else if c.FP == -6 {
		out = "ok-errortext"
	}
	cu := c.Custom
	if cu == "" {
		cu = "none"
	}
	if c.Reg {
		cu += "+registered"
	}
	return fmt.Sprintf("debug=%v custom=%s outcome=%s", c.Debug, cu, out)
}

// buildC17 materialises one cell as a scenario.
func buildC17(t *Tree, cell c17Cell) *Scenario {
	sc := &Scenario{Prop: "C17", Cwd: t.Cwd, Family: "cell"}
	failLine, failFile, failText := 0, "", ""
	for _, f := range t.Files {
		g := f
		if f.Path == t.path(cell.Page) && cell.FP >= 0 {
			stmt := failingStmts[cell.Kind%len(failingStmts)]
			// what precedes the failing statement on its way to "the line": nothing, a comment that
			// spans several lines, or CRLF line ends (neither produces anything a sentinel could match)
			pre := ""
			switch (cell.FP + cell.Kind) % 3 {
			case 1:
				pre = "{{-- c17: a note\n     that spans\n     three lines --}}"
			case 2:
				pre = "\r\n\r\n"
			}
			g.Data = Instantiate(f.Data, cell.FP, pre+stmt)
			// the generator's own answer to "the line": every failing statement is written on one
			// line, so it is 1 + the newlines before its end in the file it was put into
			if i := strings.Index(g.Data, stmt); i >= 0 && strings.Count(g.Data, stmt) == 1 {
				failLine, failFile, failText = 1+strings.Count(g.Data[:i+len(stmt)], "\n"), f.Path, pre+stmt
			}
		} else {
			g.Data = Instantiate(f.Data, -1, "")
		}
		sc.Files = append(sc.Files, g)
	}
	cfg := t.Cfg
	cfg.Debug = cell.Debug
	cfg.ErrPage = ""
	switch cell.Custom {
	case "valid":
		cfg.ErrPage = errPageNames[(cell.FP+8)%len(errPageNames)]
		sc.Files = append(sc.Files, File{Path: t.path(cfg.ErrPage), Data: "<style>.w{width: 100%; margin: 5%d}</style>" + "{{ n1 = \"now a string\" }}{{ s0 = 5 }}{{ status = \"unavailable\" }}<h1>CUSTOM_ERROR_PAGE</h1><p>{{ 40 + 2 }} {{ status }}</p>", Role: "errorpage"})
	case "failing":
		cfg.ErrPage = "errors/500"
		sc.Files = append(sc.Files, File{Path: t.path("errors/500"), Data: "<h1>CUSTOM_ERROR_PAGE</h1>{{ undefinedInErrorPage }}", Role: "errorpage"})
	case "missing":
		cfg.ErrPage = "errors/nope"
	case "layouted":
		// the error page uses the same layout as the pages and fills fewer of its reserves than they do
		cfg.ErrPage = "errors/layouted"
		sc.Files = append(sc.Files, File{Path: t.path("errors/layouted"), Data: "@use(\"layouts/main\")\n@insert(\"content\")<h1>CUSTOM_ERROR_PAGE</h1><p>sorry</p>@end\n", Role: "errorpage"})
	case "late":
		// works only once the function it calls has been registered
		cfg.ErrPage = "errors/late"
		sc.Files = append(sc.Files, File{Path: t.path("errors/late"), Data: "<h1>CUSTOM_ERROR_PAGE</h1><p>{{ \"sorry\".c17late(1) }}</p>", Role: "errorpage"})
	}
	sc.Setup = []Op{{Kind: "newtemplate", Cfg: &cfg}}
	if cell.Reg {
		sc.Setup = []Op{{Kind: "register", Recv: "str", Name: "c17late", Fn: 3}, {Kind: "newtemplate", Cfg: &cfg}}
		if cell.FP%2 == 0 {
			// ... or after the load (the documented order: NewTemplate, then Register*Func)
			sc.Setup = []Op{{Kind: "newtemplate", Cfg: &cfg}, {Kind: "register", Recv: "str", Name: "c17late", Fn: 3}}
		}
	}
	name := cell.Page
	data := t.Data
	if cell.FP == -2 {
		name = "no/such/" + cell.Page
	}
	if cell.FP <= -3 {
		// a value the data conversion rejects: the render fails before any statement runs
		data = &Val{T: "map", K: append(append([]string{}, t.Data.K...), "zzchan"), V: append(append([]Val{}, t.Data.V...), Val{T: "chan"})}
	}
	if cell.FP == -4 && cfg.ErrPage != "" {
		name = cfg.ErrPage
	}
	sentinel := t.Sent[cell.Page]
	if cell.FP == -5 {
		// no data at all; the page assigns the names the custom error page assigns too, with other types
		name, data, sentinel = "nodata", nil, "ND"
		sc.Files = append(sc.Files, File{Path: t.path("nodata"), Role: "page",
			Data: "{{ status = 200 }}{{ n1 = 3 }}{{ s0 = [1] }}<p>ND_1</p>" + failingStmts[cell.Kind%len(failingStmts)] + "<p>ND_2</p>"})
	}
	if cell.FP == -6 {
		// a page that renders fine and legitimately shows text that looks like an error report
		name, sentinel = "errtext", "ET"
		sc.Files = append(sc.Files, File{Path: t.path("errtext"), Role: "page",
			Data: "<h1>ET_1 log</h1><pre>[Textwire ERROR:3]: /var/log/app/x.tw: variable 'y' is not defined</pre><p>{{ lastError }}</p><p>Oops! Sorry! ET_2</p>"})
		data = &Val{T: "map", K: []string{"lastError"}, V: []Val{VStr("[Textwire ERROR:12]: /var/www/tpl/home.tw: division by zero")}}
	}
	if cell.FP >= -2 && cell.Kind%2 == 1 && data != nil {
		// data that renders fine but that encoders (JSON, ...) reject
		data = &Val{T: "map", K: append(append([]string{}, data.K...), "zznan", "zzinf"), V: append(append([]Val{}, data.V...), Val{T: "nan"}, VMap([]string{"deep"}, []Val{{T: "inf"}}))}
	}
	sc.Ops = []Op{
		{Kind: "string", Name: name, Data: data},
		{Kind: "response", Name: name, Data: data},
		{Kind: "response", Name: name, Data: data, W: &WriterFault{FailAt: 1}},
		{Kind: "response", Name: name, Data: data, W: &WriterFault{FailAt: 1, Short: true}},
	}
	sc.Extra = map[string]any{"cell": cell.class(), "sentinel": sentinel, "tpldir": t.Cwd + "/" + strings.Trim(t.Cfg.Dir, "/")}
	if failLine > 0 {
		sc.Extra["failline"], sc.Extra["failfile"], sc.Extra["failtext"] = float64(failLine), failFile, failText
	}
	return sc
}

type c17Fail struct{ clause, what, exp, got string }

// c17Cfg returns the configuration a cell loads its templates with.
func c17Cfg(sc *Scenario) *Cfg {
	for _, op := range sc.Setup {
		if op.Kind == "newtemplate" {
			return op.Cfg
		}
	}
	return nil
}

func containsEither(body, needle string) bool {
	if needle == "" {
		return false
	}
	return strings.Contains(body, needle) || strings.Contains(html.UnescapeString(body), needle) || strings.Contains(body, html.EscapeString(needle))
}

// checkC17 executes a cell and applies the reference model.
func checkC17(sc *Scenario, acc *Acc) (*c17Fail, bool, bool) {
	f, late, bad := checkC17Cfg(sc, acc, nil)
	if stale, _ := sc.Extra["stale"].(bool); stale && f != nil && !bad && len(sc.Prior) > 0 {
		// An older Template used after a newer NewTemplate: whether the configuration is
		// process-global (textwire today) or bound to the Template at load time is a design
		// choice no claimed property fixes. Either reading is accepted, but it must hold as a
		// whole: the model is applied again under the configuration the older Template was
		// loaded with.
		if f2, _, bad2 := checkC17Cfg(sc, nil, c17Cfg(sc.Prior[len(sc.Prior)-1])); !bad2 && f2 == nil {
			return nil, late, false
		}
	}
	return f, late, bad
}

func checkC17Cfg(sc *Scenario, acc *Acc, cfgOverride *Cfg) (*c17Fail, bool, bool) {
	var w *World
	var ok bool
	// "a working custom error page": the configured page rendered alone, first, in a fresh state —
	// not after the failing render, whose leftovers must not decide whether the page "works"
	var cpRef *Obs
	if c := c17Cfg(sc); c != nil && c.ErrPage != "" {
		if fw, fok := setupWorld(sc); fok {
			o := fw.RunOp(Op{Kind: "string", Name: c.ErrPage, Data: nil}, Budget)
			cpRef = &o
		}
	}
	if len(sc.Prior) > 0 {
		// chained: earlier cells (other failure points, other debug mode) ran in this
		// process before; nothing is reset in between
		var pw *World
		for i, prior := range sc.Prior {
			if i == 0 {
				pw, ok = setupWorld(prior)
			} else {
				pw, ok = setupWorldKeep(prior)
			}
			if !ok {
				return nil, false, true
			}
			for _, op := range prior.Ops[:2] {
				pw.RunOp(op, Budget)
			}
		}
		w, ok = setupWorldKeep(sc)
		if stale, _ := sc.Extra["stale"].(bool); stale && ok && pw != nil && pw.Tpl != nil {
			// the OLDER Template value (loaded by the last predecessor, possibly under another debug
			// mode) is used after the newer NewTemplate; the configuration is process-global, so the
			// current configuration is what the model applies
			w.Tpl = pw.Tpl
		}
	} else {
		w, ok = setupWorld(sc)
	}
	if !ok {
		return nil, false, true
	}
	cfg := c17Cfg(sc)
	if cfgOverride != nil {
		cfg = cfgOverride
	}
	sentinel, _ := sc.Extra["sentinel"].(string)
	tpldir, _ := sc.Extra["tpldir"].(string)
	str := w.RunOp(sc.Ops[0], Budget)
	resp := w.RunOp(sc.Ops[1], Budget)
	if acc != nil {
		acc.Evals++
		acc.Steps += str.Steps + resp.Steps
	}
	if str.Kind == "panic" || str.Kind == "abort" {
		// String itself misbehaves: not C17's business
		return nil, false, false
	}
	failedLate := false
	var lineSuspect *c17Fail
	if resp.Kind == "panic" || resp.Kind == "abort" {
		return &c17Fail{"Response panics or hangs", "response-" + resp.Kind, "", resp.Short()}, false, false
	}
	if str.Kind == "ok" {
		if resp.Kind != "ok" {
			return &c17Fail{"rendering succeeds but Response returns an error", "success-returns-error", "nil", resp.Short()}, false, false
		}
		if resp.Body != str.Out {
			return &c17Fail{"rendering succeeds but the body is not the complete rendered page", "success-body-differs", short(str.Out), short(resp.Body)}, false, false
		}
		if !cfg.Debug {
			// the generated pages never print paths themselves
			for _, pr := range [][2]string{{"template-directory", tpldir}, {"cwd", sc.Cwd}} {
				what, needle := pr[0], pr[1]
				if containsEither(resp.Body, needle) {
					return &c17Fail{"debug mode is off but the body contains a file path (" + what + ")", "leak-" + what + "-in-page", "no occurrence of " + needle, short(resp.Body)}, false, false
				}
			}
		}
	} else {
		// failure
		if resp.Kind != "err" {
			return &c17Fail{"rendering fails but Response returns nil", "failure-returns-nil", "a non-nil error", resp.Short()}, false, false
		}
		marks := []string{"LAY_", "CARD_H", "BADGE"}
		if sentinel != "" {
			marks = append(marks, sentinel+"_")
		}
		for _, m := range marks {
			if cpRef != nil && cpRef.Kind == "ok" && strings.Contains(cpRef.Out, m) {
				continue // the error page itself legitimately shows it (it uses the same layout / components)
			}
			if strings.Contains(resp.Body, m) {
				return &c17Fail{"the body contains part of the failed page", "failed-page-leaks-into-body", "no occurrence of " + m, short(resp.Body)}, false, false
			}
		}
		// which error page?
		builtin := func(debug bool) (string, bool) {
			o := w.RunOp(Op{Kind: "evalstr", Src: loadDefaultErrPage(), Data: &Val{T: "map", K: []string{"path", "line", "message", "debugMode"},
				V: []Val{VStr(str.Path), {T: "int64", I: int64(str.Line)}, VStr(str.Msg), VBool(debug)}}}, Budget)
			return o.Out, o.Kind == "ok"
		}
		bi, biok := builtin(cfg.Debug)
		staticHead := ""
		if !biok {
			// The repository's built-in page no longer renders from {path, line, message, debugMode}
			// alone (it was given more variables). The equality clause cannot be applied; what remains
			// is structural: the body must begin with the page's static head (the source up to its
			// first directive), and every other clause stays in force.
			src := loadDefaultErrPage()
			cut := len(src)
			for _, m := range []string{"{{", "@if", "@each", "@for", "@component", "@dump"} {
				if i := strings.Index(src, m); i >= 0 && i < cut {
					cut = i
				}
			}
			staticHead = src[:cut]
			if len(strings.TrimSpace(staticHead)) < 16 {
				return nil, false, true
			}
			if acc != nil {
				acc.Probe("builtin-page-reference-unavailable-structural-clause-used", 1)
			}
		}
		// a repair that HTML-escapes the values it puts into the built-in page is still the built-in page
		biEsc := ""
		if o := w.RunOp(Op{Kind: "evalstr", Src: loadDefaultErrPage(), Data: &Val{T: "map", K: []string{"path", "line", "message", "debugMode"},
			V: []Val{VStr(html.EscapeString(str.Path)), {T: "int64", I: int64(str.Line)}, VStr(html.EscapeString(str.Msg)), VBool(cfg.Debug)}}}, Budget); o.Kind == "ok" {
			biEsc = o.Out
		}
		isBuiltin := func(body string) bool {
			if staticHead != "" {
				return strings.HasPrefix(body, staticHead)
			}
			return body == bi || (biEsc != "" && body == biEsc)
		}
		switch {
		case cfg.ErrPage != "" && !cfg.Debug:
			cp := w.RunOp(Op{Kind: "string", Name: cfg.ErrPage, Data: nil}, Budget)
			if cpRef != nil && cfgOverride == nil {
				cp = *cpRef
			}
			if cp.Kind == "ok" {
				if resp.Body != cp.Out {
					return &c17Fail{"a working custom error page is configured and debug is off, but the body is not that page", "body-not-custom-page", short(cp.Out), short(resp.Body)}, false, false
				}
			} else if resp.Body != "" && !isBuiltin(resp.Body) {
				return &c17Fail{"the custom error page fails; the body must be empty or the built-in page", "custom-fails-body-neither-empty-nor-builtin", "\"\" or built-in page", short(resp.Body)}, false, false
			}
		default:
			if !isBuiltin(resp.Body) {
				return &c17Fail{"the body is not the built-in error page for this error and debug mode", "body-not-builtin-page", short(bi), short(resp.Body)}, false, false
			}
		}
		if !cfg.Debug {
			for _, pr := range [][2]string{{"message", str.Msg}, {"path", str.Path}, {"template-directory", tpldir}, {"cwd", sc.Cwd}} {
				what, needle := pr[0], pr[1]
				if containsEither(resp.Body, needle) {
					return &c17Fail{"debug mode is off but the body contains the error " + what, "leak-" + what, "no occurrence of " + needle, short(resp.Body)}, false, false
				}
			}
		} else {
			// "the line": where the generator put the one failing statement of the page (independent of the
			// positions the tree under test computes), whenever the error is reported for that file
			if fl, _ := sc.Extra["failline"].(float64); fl > 0 && str.Fail && str.Path != "" {
				ff, _ := sc.Extra["failfile"].(string)
				if filepath.Base(ff) == filepath.Base(str.Path) && float64(str.Line) != fl {
					// decided at the end, by a control run: the page may fail on its own, elsewhere
					lineSuspect = &c17Fail{"debug mode is on but the line shown is not the line of the failing statement", "debug-line-wrong", fmt.Sprint(int(fl)), fmt.Sprintf("%d (%s)", str.Line, short(str.Msg))}
				}
			}
			for _, pr := range [][2]string{{"message", str.Msg}, {"path", str.Path}, {"line", fmt.Sprint(str.Line)}} {
				what, needle := pr[0], pr[1]
				if needle == "" {
					continue // e.g. a data-conversion error carries no path: nothing to show
				}
				if !containsEither(resp.Body, needle) {
					return &c17Fail{"debug mode is on but the body lacks the error " + what, "debug-missing-" + what, needle, short(resp.Body)}, false, false
				}
			}
		}
		// did the render fail after producing output? (the failing statement is preceded by a sentinel chunk)
		for _, f := range sc.Files {
			for _, fs := range failingStmts {
				if i := strings.Index(f.Data, fs); i > 0 && sentinel != "" && strings.Contains(f.Data[:i], sentinel+"_") {
					failedLate = true
				}
			}
		}
	}
	// writer faults: no panic, same offered bytes
	for _, op := range sc.Ops[2:] {
		o := w.RunOp(op, Budget)
		if acc != nil {
			acc.Evals++
			acc.Steps += o.Steps
			acc.Fault("writer-"+map[bool]string{true: "short-write", false: "write-error"}[op.W.Short], int64(min(o.Wr, 1)))
		}
		if o.Kind == "panic" || o.Kind == "abort" {
			return &c17Fail{"Response panics or hangs when the writer fails", "writer-fault-" + o.Kind, "", o.Short()}, failedLate, false
		}
		// a writer that fails may be offered less (an implementation may write in pieces and stop at
		// the first failure) but never anything else: no second page, no other content
		if !strings.HasPrefix(resp.Body, o.Body) {
			return &c17Fail{"a failing writer is offered bytes that are not a prefix of what a healthy one gets", "writer-fault-other-bytes", "a prefix of " + short(resp.Body), short(o.Body)}, failedLate, false
		}
	}
	if lineSuspect != nil && len(sc.Prior) == 0 {
		// control: the same cell without the failing statement, from a fresh state. Only when that
		// renders is the substituted statement the one identifiable construct the error is about.
		ctl := *sc
		ctl.Files = nil
		ft, _ := sc.Extra["failtext"].(string)
		ff, _ := sc.Extra["failfile"].(string)
		for _, f := range sc.Files {
			if f.Path == ff && ft != "" {
				f.Data = strings.Replace(f.Data, ft, "", 1)
			}
			ctl.Files = append(ctl.Files, f)
		}
		if cw, cok := setupWorld(&ctl); cok {
			if o := cw.RunOp(sc.Ops[0], Budget); o.Kind == "ok" {
				return lineSuspect, failedLate, false
			}
		}
	}
	return nil, failedLate, false
}

func short(s string) string {
	if len(s) > 240 {
		return fmt.Sprintf("%q...(%d bytes)", s[:240], len(s))
	}
	return fmt.Sprintf("%q", s)
}

func (p c17) Run(seed uint64, run int, tier string, acc *Acc) *Violation {
	r := NewRng(Mix(seed, "C17", run))
	t := GenTree(r, TreeOpts{WantFP: true, Pages: r.Range(1, 2), Depth: 2})
	acc.Runs++
	page := t.Pages[r.Intn(len(t.Pages))]
	nfp := t.FPs[page]
	if nfp > 14 {
		nfp = 14
	}
	EventLog = hashStr(uint64(run), toJSON(t.Files))
	defer func() { acc.Hashes[run] = EventLog }()
	var first *Violation
	seen := map[string]bool{}
	cells := 0
	for fp := -6; fp < nfp; fp++ {
		kind := r.Intn(len(failingStmts))
		for _, debug := range []bool{false, true} {
			for _, custom := range []string{"", "valid", "failing", "missing", "layouted"} {
				if custom == "layouted" && (debug || fp < 0) {
					continue // only where it differs from "valid": debug off, a failure inside the page
				}
				cell := c17Cell{Page: page, FP: fp, Kind: kind, Debug: debug, Custom: custom}
				sc := buildC17(t, cell)
				sc.Seed, sc.Run = seed, run
				f, late, bad := checkC17(sc, acc)
				cells++
				if bad {
					acc.Probe("setup-failed", 1)
					continue
				}
				acc.Probe("cells/"+cell.class(), 1)
				if late {
					acc.Distinct[hashStr(sc.Hash(), "late")] = true
					acc.Probe("failed-after-output", 1)
				}
				if f != nil {
					sig := cell.class() + " clause=" + f.what
					if !seen[sig] {
						seen[sig] = true
						v := &Violation{Prop: "C17", Clause: f.clause, Sig: sig, Scenario: sc, Expected: f.exp, Got: f.got,
							Detail: fmt.Sprintf("page %q, failure point %d (%s), config %+v", page, fp, failingStmts[kind], *c17Cfg(sc))}
						if first == nil {
							first = v
						} else {
							acc.Viol = append(acc.Viol, v)
						}
					}
				}
			}
		}
	}
	// size thresholds: the same page padded so that its rendering is EXACTLY 4096 / 8192 bytes
	for _, debug := range []bool{false, true} {
		cell := c17Cell{Page: page, FP: -1, Debug: debug, Custom: "valid"}
		probe := buildC17(t, cell)
		pw, ok := setupWorld(probe)
		if !ok {
			break
		}
		o := pw.RunOp(probe.Ops[0], Budget)
		if o.Kind != "ok" {
			break
		}
		for _, target := range []int{4096, 8192} {
			pad := target - len(o.Out)%4096
			if target == 8192 {
				pad += 4096
			}
			sc := buildC17(t, cell)
			sc.Seed, sc.Run = seed, run
			sc.Family = "exact-size"
			fi := -1
			for i, f := range sc.Files {
				if f.Path == t.path(page) {
					fi = i
				}
			}
			if fi < 0 {
				break
			}
			padding := strings.Repeat("p", pad)
			src := sc.Files[fi].Data
			if strings.Contains(src, "@insert(\"content\")") {
				src = strings.Replace(src, "@insert(\"content\")", "@insert(\"content\")"+padding, 1)
			} else {
				src = padding + src
			}
			sc.Files[fi].Data = src
			f, _, bad := checkC17(sc, acc)
			acc.Probe("exact-size-cells", 1)
			if !bad && f != nil {
				sig := "exact-size " + cell.class() + " clause=" + f.what
				if !seen[sig] {
					seen[sig] = true
					sc.Extra["cell"] = "exact-size " + cell.class()
					v := &Violation{Prop: "C17", Clause: f.clause + " (page padded to an exact multiple of 4096 bytes)", Sig: sig, Scenario: sc, Expected: f.exp, Got: f.got,
						Detail: fmt.Sprintf("page %q padded by %d bytes", page, pad)}
					if first == nil {
						first = v
					} else {
						acc.Viol = append(acc.Viol, v)
					}
				}
			}
		}
	}
	// chained pass: per custom-page kind (that field is sticky across NewTemplate calls by
	// design), the cells run one after another in ONE process without reset; each cell is
	// judged by the same model. Catches anything remembered across renders or loads.
	for _, custom := range []string{"", "valid", "failing", "missing", "late"} {
		var chain []*Scenario
		n := 0
		for fp := nfp - 1; fp >= -6; fp-- {
			for _, debug := range []bool{true, false} {
				n++
				if n > 10 || (custom == "late" && n > 4) {
					break
				}
				cell := c17Cell{Page: page, FP: fp, Kind: (fp + 7) % len(failingStmts), Debug: debug, Custom: custom}
				if custom == "late" {
					// the error page fails in the first cells (its function does not exist yet); the
					// function is registered before the last one, which must then show the custom page
					cell.Debug = false
					cell.Reg = n == 4
				}
				sc := buildC17(t, cell)
				sc.Seed, sc.Run = seed, run
				sc.Family = "chained-cell"
				sc.Prior = append([]*Scenario{}, chain...)
				f, _, bad := checkC17(sc, acc)
				acc.Probe("chained-cells", 1)
				if !bad && f != nil {
					sig := cell.class() + " clause=" + f.what
					if len(sc.Prior) > 0 {
						sig = "chained " + sig
					}
					if !seen[sig] {
						seen[sig] = true
						// keep only the last predecessor if that is enough
						if len(sc.Prior) > 1 {
							s2 := sc.Clone()
							s2.Prior = s2.Prior[len(s2.Prior)-1:]
							if f2, _, bad2 := checkC17(s2, nil); !bad2 && f2 != nil && f2.what == f.what {
								sc, f = s2, f2
							}
						}
						v := &Violation{Prop: "C17", Clause: f.clause + " (after earlier renders in the same process)", Sig: sig, Scenario: sc, Expected: f.exp, Got: f.got,
							Detail: fmt.Sprintf("page %q, failure point %d, config %+v, after %d earlier cell(s)", page, fp, *c17Cfg(sc), len(sc.Prior))}
						if first == nil {
							first = v
						} else {
							acc.Viol = append(acc.Viol, v)
						}
					}
				}
				// the previous cell's Template value, used after this cell's NewTemplate
				if len(chain) > 0 {
					st := sc.Clone()
					st.Prior = []*Scenario{chain[len(chain)-1]}
					st.Ops = chain[len(chain)-1].Ops
					st.Family = "stale-template"
					st.Extra["stale"] = true
					st.Extra["cell"] = "stale-template " + cell.class()
					f, _, bad := checkC17(st, acc)
					acc.Probe("stale-template-cells", 1)
					if !bad && f != nil {
						sig := "chained stale-template " + cell.class() + " clause=" + f.what
						if !seen[sig] {
							seen[sig] = true
							v := &Violation{Prop: "C17", Clause: f.clause + " (an older Template value used after a newer NewTemplate)", Sig: sig, Scenario: st, Expected: f.exp, Got: f.got,
								Detail: fmt.Sprintf("page %q, current config %+v", page, *c17Cfg(st))}
							if first == nil {
								first = v
							} else {
								acc.Viol = append(acc.Viol, v)
							}
						}
					}
				}
				plain := sc.Clone()
				plain.Prior = nil
				chain = append(chain, plain)
			}
		}
	}
	if run%16 == 0 {
		acc.Sample(map[string]any{"page": page, "failure_points": nfp, "cells": cells, "page_source": Instantiate(t.Files[t.FileOf(page)].Data, 0, "<<FP0>>"), "config": t.Cfg})
	}
	return first
}

func (p c17) Replay(sc *Scenario, acc *Acc) *Violation {
	f, _, bad := checkC17(sc, acc)
	if bad {
		return &Violation{Prop: "C17", Clause: "setup of the scenario fails on this tree", Sig: "setup-failed", Scenario: sc}
	}
	if f == nil {
		return nil
	}
	cls, _ := sc.Extra["cell"].(string)
	if len(sc.Prior) > 0 {
		cls = "chained " + cls
	}
	return &Violation{Prop: "C17", Clause: f.clause, Sig: cls + " clause=" + f.what, Scenario: sc, Expected: f.exp, Got: f.got}
}
