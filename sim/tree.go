package sim

import (
	"fmt"
	"strings"
)

// Tree is a generated template directory with everything the generator knows
// about it.
type Tree struct {
	Cwd     string
	Cfg     Cfg
	Files   []File
	Pages   []string // renderable names
	Layouts []string
	Comps   []CompSpec
	Data    *Val
	FPs     map[string]int    // page name -> number of failure-point placeholders in its file
	Sent    map[string]string // page name -> sentinel prefix
}

type TreeOpts struct {
	Pages      int
	ObjBias    int
	FailBias   int
	WantFP     bool
	ErrPage    string // "" none, "valid", "failing", "missing"
	Debug      bool
	Funcs      map[string][]string
	Dir        string
	Ext        string
	Depth      int
	NoBig      bool
	ObjFail    bool
	ArgClash   bool
	LayoutComp bool // the layout itself uses a component
}

func (t *Tree) path(name string) string {
	return t.Cwd + "/" + strings.Trim(t.Cfg.Dir, "/") + "/" + name + t.Cfg.Ext
}

func (t *Tree) add(name, role, data string) {
	t.Files = append(t.Files, File{Path: t.path(name), Data: data, Role: role})
}

// FileOf returns the index of the file that holds the template `name`.
func (t *Tree) FileOf(name string) int {
	p := t.path(name)
	for i, f := range t.Files {
		if f.Path == p {
			return i
		}
	}
	return -1
}

// GenTree generates a healthy tree: a layout, two components, some pages.
func GenTree(r *Rng, o TreeOpts) *Tree {
	t := &Tree{Cwd: Pick(r, []string{"/srv/app", "/work", "/home/u/site", "/srv/my app", "/home/u/café#1"}), FPs: map[string]int{}, Sent: map[string]string{}}
	t.Cfg = Cfg{Dir: o.Dir, Ext: o.Ext, Debug: o.Debug}
	if t.Cfg.Dir == "" {
		t.Cfg.Dir = Pick(r, []string{"templates", "tpl/views", "t"})
	}
	if t.Cfg.Ext == "" {
		t.Cfg.Ext = Pick(r, []string{".tw", ".tw.html", ".html"})
	}
	if o.Depth == 0 {
		o.Depth = 2
	}
	allFuncs := r.Chance(60)
	base := &Gen{R: r, ObjBias: o.ObjBias, FailBias: 0, Funcs: o.Funcs, NoBig: o.NoBig, ArgClash: o.ArgClash}
	t.Data = base.GenData()
	dataVars := append([]gvar{}, base.vars...)

	// components
	t.Comps = []CompSpec{
		{Name: "components/card", Args: []string{"title", "n"}, Slots: []string{"", "foot"}},
		{Name: "~badge", Args: []string{"label"}, Slots: nil},
	}
	t.add("components/card", "component", `<div class="card">CARD_H {{ title }}#{{ n }}`+"\n@slot\n<hr>\n@slot(\"foot\")\n</div>")
	t.add("components/badge", "component", `<span class="badge">BADGE {{ label }}</span>`)

	// layout
	lg := &Gen{R: r, Prefix: "LAY", vars: append([]gvar{}, dataVars...), ObjBias: o.ObjBias, Funcs: o.Funcs, NoBig: o.NoBig, AllFuncs: allFuncs}
	layComp := ""
	if o.LayoutComp {
		layComp = "\n@component(\"~badge\", {label: \"LAYOUT\"})\n"
	}
	lay := "<html><head><title>@reserve(\"title\")</title></head>\n<body>" + layComp + lg.Stmts(r.Range(1, 2), 1) +
		"\n<main>@reserve(\"content\")</main>\n<aside>@reserve(\"side\")</aside>" + lg.Stmts(1, 0) + "</body></html>"
	t.add("layouts/main", "layout", lay)
	t.Layouts = []string{"layouts/main"}

	np := o.Pages
	if np == 0 {
		np = r.Range(2, 4)
	}
	for i := 0; i < np; i++ {
		name := fmt.Sprintf("page%d", i)
		if r.Chance(30) {
			name = Pick(r, []string{"admin/", "blog/posts/", "a/"}) + name
		}
		g := &Gen{R: r, Prefix: fmt.Sprintf("PG%d", i), vars: append([]gvar{}, dataVars...), ObjBias: o.ObjBias,
			FailBias: o.FailBias, Comps: t.Comps, WantFP: o.WantFP, Funcs: o.Funcs, NoBig: o.NoBig, ObjFail: o.ObjFail, AllFuncs: allFuncs}
		var src string
		if r.Chance(50) {
			// page with layout
			use := Pick(r, []string{`@use("layouts/main")`, `@use("~main")`})
			src = use + "\n"
			if r.Chance(70) {
				src += `@insert("title", ` + g.Expr("str", 1) + ")\n"
			}
			src += `@insert("content")` + g.Stmts(r.Range(2, 4), o.Depth) + "@end\n"
			if r.Chance(40) {
				src += `@insert("side")` + g.Stmts(1, 1) + "@end\n"
			}
		} else {
			src = g.Stmts(r.Range(3, 6), o.Depth)
		}
		t.add(name, "page", src)
		t.Pages = append(t.Pages, name)
		t.FPs[name] = g.FPs
		t.Sent[name] = g.Prefix
	}
	if r.Chance(50) && !o.WantFP {
		// a page of plain HTML and an argument-less component that reads the caller's variables
		t.add("components/inh", "component", "<u>INH {{ n1 }}/{{ s0 }}/{{ b0 }}</u>")
		t.add("inhpage", "page", "<p>INHP_1 only html</p>\n@component(\"components/inh\")\n<p>INHP_2</p>")
		t.Pages = append(t.Pages, "inhpage")
		t.Sent["inhpage"] = "INHP"
	}
	switch o.ErrPage {
	case "valid":
		t.Cfg.ErrPage = "errors/500"
		t.add("errors/500", "errorpage", "{{ title = \"Oops\" }}<h1>CUSTOM_ERROR_PAGE</h1><p>sorry {{ title }}</p>")
		t.Pages = append(t.Pages, "errors/500")
	case "failing":
		t.Cfg.ErrPage = "errors/500"
		t.add("errors/500", "errorpage", "<h1>CUSTOM_ERROR_PAGE</h1>{{ undefinedInErrorPage }}")
		t.Pages = append(t.Pages, "errors/500")
	case "missing":
		t.Cfg.ErrPage = "errors/nope"
	}
	return t
}

// Clean returns the files with failure-point placeholders removed.
func (t *Tree) Clean() []File {
	out := make([]File, len(t.Files))
	for i, f := range t.Files {
		f.Data = Instantiate(f.Data, -1, "")
		out[i] = f
	}
	return out
}

func (t *Tree) LoadOp() Op {
	c := t.Cfg
	return Op{Kind: "newtemplate", Cfg: &c}
}
