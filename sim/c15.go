package sim

import (
	"fmt"
	"os"
	"sort"
	"strings"

	"github.com/textwire/textwire/v2/simrt"
)

// C15 — one loaded Template and the string API are safe for concurrent use.
// The seam owned is S2: which caller goroutine runs at every instrumented
// point. Exactly one task is runnable at any time and the simulator decides
// which; all other seams are pinned.
type c15 struct{}

func init() { Props["C15"] = c15{} }

func (c15) ID() string    { return "C15" }
func (c15) Level() string { return "exploration" }
func (c15) Runs(tier string) int {
	if tier == "thorough" {
		return 300000
	}
	return 2400
}
func (c15) Rule() string {
	return "per run: a template tree is loaded and custom functions registered (not concurrent), then G in 2..4 client tasks, each with 1..3 operations from {String, Response, EvaluateString, EvaluateFile} x {succeeding, failing at run time, unknown name, error page}, run under the cooperative scheduler. A dry run without preemption measures each task's steps and where it touches shared memory; then seeded preemption-bounded schedules (k <= 3 quick, <= 6 thorough; 80% of preemptions at statements touching package-level variables that are written somewhere in the module, 20% uniform) are executed. Oracles: (1) every operation's observation equals the observation of the same operation run alone after the same setup; (2) afterwards every page re-renders to its baseline; (3) the simulator's vector-clock conflict detector over instrumented package-level accesses reports no unordered conflicting pair. evaluations = schedules executed. distinct_nontrivial = distinct interleaving hashes (sequence of (task, shared site) plus switches) of schedules in which at least two tasks overlapped."
}
func (c15) Assumptions() []string {
	return []string{
		"interleavings are explored at the granularity of the inserted yields: function entry, loop head, every statement mentioning a package-level variable, every statement writing through a pointer/field/index, every simulated I/O call and lock operation",
		"the conflict detector sees package-level variables (reads and writes) statically attributed per statement; heap reads through pointers held in locals are invisible to it — the -race companion (./check C15 race, part of both tiers) covers those",
		"weak-memory effects below statement granularity are out of reach of the simulator",
		"map order, clock and PRNG seams are pinned",
	}
}

type c15Run struct {
	obs      [][]Obs
	sched    *simrt.Sched
	post     []Obs
	watchdog bool
}

// execC15 runs the scenario's tasks under the given plan.
func execC15(sc *Scenario, post []Op, plan []simrt.Preempt, first int, endCh []int, detect bool) (c15Run, bool) {
	w, ok := setupWorld(sc)
	if !ok {
		return c15Run{}, false
	}
	res := c15Run{obs: make([][]Obs, len(sc.Tasks))}
	fns := make([]func(), len(sc.Tasks))
	for ti := range sc.Tasks {
		ti := ti
		res.obs[ti] = make([]Obs, len(sc.Tasks[ti]))
		for i := range res.obs[ti] {
			res.obs[ti][i] = Obs{Kind: "abort", Err: "not run"}
		}
		fns[ti] = func() {
			for oi, op := range sc.Tasks[ti] {
				var o Obs
				if msg := simrt.Protect(func() { o = w.Do(op) }); msg != "" {
					o = Obs{Kind: "panic", Err: msg}
				}
				res.obs[ti][oi] = o
			}
		}
	}
	s := simrt.NewSched(fns, Budget, plan)
	s.EndChoice = endCh
	s.DetectRaces = detect
	s.Quantum = sc.Quantum
	if sc.NoFD {
		w.FS.NoFD = true
		defer func() { w.FS.NoFD = false }()
	}
	if !s.Run(first) {
		res.watchdog = true
		return res, true
	}
	for ti, t := range s.Tasks {
		if t.Aborted != "" {
			for oi := range res.obs[ti] {
				if res.obs[ti][oi].Kind == "abort" {
					res.obs[ti][oi] = Obs{Kind: "abort", Err: t.Aborted}
					break
				}
			}
		}
		for _, o := range res.obs[ti] {
			logEvent(o.Key())
		}
		logEvent(fmt.Sprint(t.Steps))
	}
	logEvent(fmt.Sprint(s.InterleaveHash, s.Switches))
	res.sched = s
	for _, op := range post {
		res.post = append(res.post, w.RunOp(op, Budget))
	}
	return res, true
}

type c15Diff struct {
	kind     string // diverge post race deadlock
	task, op int
	exp, got Obs
	race     simrt.Race
}

func c15Check(sc *Scenario, post []Op, base map[string]Obs, r c15Run) *c15Diff {
	for ti := range sc.Tasks {
		for oi, op := range sc.Tasks[ti] {
			exp := base[opKey(op)]
			if got := r.obs[ti][oi]; got.Key() != exp.Key() {
				if sc.NoFD && got.Kind == "err" && strings.Contains(got.Err, "too many open files") {
					// the injected fault, reported as such: a call may fail because the process has no
					// descriptor left; it may not succeed with anything but what it returns alone
					continue
				}
				k := "diverge"
				if got.Kind == "abort" && strings.Contains(got.Err, "deadlock") {
					k = "deadlock"
				}
				return &c15Diff{kind: k, task: ti, op: oi, exp: exp, got: got}
			}
		}
	}
	for i, op := range post {
		if exp := base[opKey(op)]; r.post[i].Key() != exp.Key() {
			return &c15Diff{kind: "post", task: -1, op: i, exp: exp, got: r.post[i]}
		}
	}
	if r.sched != nil && len(r.sched.Races) > 0 {
		return &c15Diff{kind: "race", race: r.sched.Races[0]}
	}
	return nil
}

func raceSig(r simrt.Race) string {
	a := fmt.Sprintf("%s(%s)", r.LocA, rw(r.WriteA))
	b := fmt.Sprintf("%s(%s)", r.LocB, rw(r.WriteB))
	if a > b {
		a, b = b, a
	}
	return "race:" + a + "~" + b
}

func rw(w bool) string {
	if w {
		return "w"
	}
	return "r"
}

func c15Baselines(sc *Scenario, ops []Op, base map[string]Obs, acc *Acc) bool {
	for _, op := range ops {
		k := opKey(op)
		if _, ok := base[k]; ok {
			continue
		}
		w, ok := setupWorld(sc)
		if !ok {
			return false
		}
		base[k] = w.RunOp(op, Budget)
		if acc != nil {
			acc.Steps += base[k].Steps
		}
	}
	return true
}

func allOps(sc *Scenario, post []Op) []Op {
	var ops []Op
	for _, t := range sc.Tasks {
		ops = append(ops, t...)
	}
	return append(ops, post...)
}

// postOps are the sequential re-renders after the concurrent phase (stored in sc.Ops).
func postOps(sc *Scenario) []Op { return sc.Ops }

func (p c15) sigOf(sc *Scenario, d *c15Diff, base map[string]Obs, r c15Run) string {
	switch d.kind {
	case "race":
		return raceSig(d.race)
	case "post":
		return "post-state:" + diffFieldFull(d.exp, d.got)
	}
	op := sc.Tasks[d.task][d.op]
	return d.kind + ":" + opClass(op, base[opKey(op)]) + ":" + diffFieldFull(d.exp, d.got)
}

func (p c15) violation(sc *Scenario, post []Op, base map[string]Obs, d *c15Diff, r c15Run) *Violation {
	sig := p.sigOf(sc, d, base, r)
	cur := sc.Clone()
	fails := func(s *Scenario) bool {
		b := map[string]Obs{}
		if !c15Baselines(s, allOps(s, post), b, nil) {
			return false
		}
		rr, ok := execC15(s, post, s.Plan, s.First, s.EndCh, true)
		if !ok || rr.watchdog {
			return false
		}
		dd := c15Check(s, post, b, rr)
		return dd != nil && p.sigOf(s, dd, b, rr) == sig
	}
	// drop preemptions
	for i := len(cur.Plan) - 1; i >= 0; i-- {
		t := cur.Clone()
		t.Plan = append(append([]simrt.Preempt{}, cur.Plan[:i]...), cur.Plan[i+1:]...)
		if fails(t) {
			cur = t
		}
	}
	// drop trailing / leading ops of tasks (plan steps are local to a task, so
	// only dropping from the end keeps them meaningful; try both anyway)
	for ti := range cur.Tasks {
		for len(cur.Tasks[ti]) > 1 {
			t := cur.Clone()
			t.Tasks[ti] = t.Tasks[ti][:len(t.Tasks[ti])-1]
			if !fails(t) {
				break
			}
			cur = t
		}
	}
	// empty whole tasks (keep indices stable)
	for ti := range cur.Tasks {
		if len(cur.Tasks) <= 2 {
			break
		}
		t := cur.Clone()
		t.Tasks[ti] = nil
		if fails(t) {
			cur = t
		}
	}
	if cur.EndCh != nil {
		t := cur.Clone()
		t.EndCh = nil
		if fails(t) {
			cur = t
		}
	}
	// describe the schedule for humans
	b := map[string]Obs{}
	c15Baselines(cur, allOps(cur, post), b, nil)
	rr, _ := execC15(cur, post, cur.Plan, cur.First, cur.EndCh, true)
	dd := c15Check(cur, post, b, rr)
	if dd == nil {
		cur = sc
		rr = r
		dd = d
	}
	v := &Violation{Prop: "C15", Sig: sig, Scenario: cur}
	var where []string
	for _, pr := range cur.Plan {
		site := "?"
		if rr.sched != nil && pr.Task < len(rr.sched.Tasks) {
			for _, h := range rr.sched.Tasks[pr.Task].Hits {
				if h.Step == pr.Step {
					site = simrt.SiteName(h.Site)
				}
			}
		}
		where = append(where, fmt.Sprintf("preempt task %d at its step %d (%s) -> task %d", pr.Task, pr.Step, site, pr.To))
	}
	cur.Note = strings.Join(where, "; ")
	switch dd.kind {
	case "race":
		v.Clause = "data race: two tasks access the same package-level location, at least one writes, and no synchronisation orders them"
		v.Detail = dd.race.String()
	case "post":
		v.Clause = "after the concurrent phase a sequential re-render differs from its baseline (state was corrupted)"
		v.Detail = fmt.Sprintf("re-render %s; schedule: %s", post[dd.op], cur.Note)
		v.Expected, v.Got = dd.exp.Short(), dd.got.Short()
	default:
		v.Clause = "a call running concurrently with others returns something else than when run alone"
		v.Detail = fmt.Sprintf("task %d op %d (%s); tasks %v; schedule: first=%d %s", dd.task, dd.op, cur.Tasks[dd.task][dd.op], tasksSummary(cur.Tasks), cur.First, cur.Note)
		v.Expected, v.Got = dd.exp.Short(), dd.got.Short()
	}
	return v
}

func tasksSummary(ts [][]Op) []string {
	var out []string
	for i, t := range ts {
		out = append(out, fmt.Sprintf("T%d%v", i, opsSummary(t)))
	}
	return out
}

func genC15(r *Rng, tier string) (*Scenario, []Op) {
	sc, post, _ := genC15Alpha(r, tier)
	return sc, post
}

// genC15Alpha also returns the operation alphabet the tasks were drawn from.
func genC15Alpha(r *Rng, tier string) (*Scenario, []Op, []Op) {
	sc, t, alpha := genC16Tree(r)
	sc.Prop = "C15"
	// rendering entry points only, with healthy writers (writer faults are C17's)
	var ops []Op
	for _, o := range alpha {
		// healthy writers only (writer faults are C17's); no operation in which the CALLER changes
		// shared data, which would be the caller's own race
		if o.W == nil && o.PreMutate == 0 {
			ops = append(ops, o)
		}
	}
	// an operation that runs shuffle() but whose result does not depend on the permutation
	ops = append(ops, Op{Kind: "evalstr", Src: "{{ xs.shuffle().len() }}", Data: &Val{T: "map", K: []string{"xs"}, V: []Val{{T: "ints", A: []Val{VInt(1), VInt(2), VInt(3)}}}}})
	cold := r.Chance(25)
	if cold {
		// cold start: nothing is loaded or evaluated before the concurrent phase, so the tasks'
		// first lexing / parsing / evaluation (and any lazy initialisation) overlap
		sc.Family = "cold"
		sc.Setup = nil
		sc.Ops = nil
		var cops []Op
		for _, o := range ops {
			if o.Kind == "evalstr" || o.Kind == "evalfile" {
				cops = append(cops, o)
			}
		}
		ops = cops
	}
	g := r.Range(2, 4)
	for i := 0; i < g; i++ {
		n := r.Range(1, 3)
		var task []Op
		for j := 0; j < n; j++ {
			o := Pick(r, ops)
			if o.Data != nil && r.Chance(50) {
				// "with their own data": the same operation, other values
				nd := &Val{T: o.Data.T, K: append([]string{}, o.Data.K...)}
				for x, k := range o.Data.K {
					v := o.Data.V[x]
					switch {
					case (k == "n1" || k == "n2" || k == "den" || k == "top" || k == "k") && v.T == "int":
						v = VInt(int(v.I) + 1 + i)
					case (k == "s0" || k == "s1") && v.T == "str":
						v = VStr(fmt.Sprintf("%s#t%d", v.S, i))
					case v.T == "float":
						v = VFloat(v.F + 1.37*float64(i+1) + 0.0078125)
					}
					nd.V = append(nd.V, v)
				}
				o.Data = nd
			}
			if o.Kind != "evalstr" && o.Kind != "evalfile" && strings.HasPrefix(o.Name, "no/such/") {
				o.Name = fmt.Sprintf("no/such/page-%d-%d", i, j) // a name nobody has asked for before
			}
			task = append(task, o)
		}
		sc.Tasks = append(sc.Tasks, task)
	}
	if cold {
		return sc, nil, ops
	}
	for _, p := range t.Pages {
		sc.Ops = append(sc.Ops, Op{Kind: "string", Name: p, Data: t.Data})
	}
	switch c := r.Intn(100); {
	case c < 2:
		// many callers inside the entry points at once: 140 tasks issue the same one or two calls and
		// advance in lockstep (round-robin time slices), the schedule a burst of requests produces
		sc.Family = "many"
		var cand []Op
		for _, o := range ops {
			if o.Kind == "response" || o.Kind == "evalfile" || (o.Kind == "string" && r.Chance(30)) {
				cand = append(cand, o)
			}
		}
		a, b := Pick(r, cand), Pick(r, cand)
		if r.Chance(60) {
			// a render that fails late and is followed by the error page: the longest nesting of entry points
			for _, o := range ops {
				if o.Kind == "response" && o.Name == "pagefail" {
					a = o
				}
			}
		}
		sc.Tasks = nil
		dyn := r.Chance(40)
		for i := 0; i < 140; i++ {
			o := a
			if i%3 == 2 {
				o = b
			}
			if dyn && i%3 != 2 {
				// every caller passes a view model of its own struct type: 90-odd distinct types in one burst
				o = Op{Kind: Pick(r, []string{"evalstr", "evalstr", "string"}), Src: "<p>{{ u.name }}</p>", Name: "dynpage",
					Data: &Val{T: "map", K: []string{"u"}, V: []Val{{T: "dyn", I: int64(i)}}}}
				if o.Kind == "string" {
					o.Src = ""
				}
			}
			sc.Tasks = append(sc.Tasks, []Op{o})
		}
		if dyn {
			// ... after the process has already seen some (setup)
			for i := 0; i < 60; i++ {
				sc.Setup = append(sc.Setup, Op{Kind: "evalstr", Src: "{{ u.name }}", Data: &Val{T: "map", K: []string{"u"}, V: []Val{{T: "dyn", I: int64(1000 + i)}}}})
			}
		}
		sc.Quantum = -int64(Pick(r, []int{10, 40, 160})) // negative: slices per call; fixed once the call's length is known
	case c < 6:
		// the process runs out of file descriptors while several tasks evaluate the same files; one
		// successful evaluation of each file has happened before (setup)
		sc.Family = "nofd"
		var files []Op
		for _, o := range ops {
			if o.Kind == "evalfile" {
				files = append(files, o)
			}
		}
		files = append(files, Op{Kind: "evalfile", Name: t.path("allfuncs"), Data: BuiltinSweepData()})
		sc.Tasks = nil
		hot := files[len(files)-1]
		if r.Chance(40) {
			hot = Pick(r, files)
		}
		sc.Setup = append(sc.Setup, hot)
		for i := 0; i < r.Range(2, 4); i++ {
			task := []Op{hot}
			if r.Chance(40) {
				task = append(task, Pick(r, files))
			}
			sc.Tasks = append(sc.Tasks, task)
		}
		sc.NoFD = true
	case c < 16:
		// every task issues the same call: the first calls of their kind on a freshly loaded Template
		sc.Family = "same-call"
		o := Pick(r, ops)
		n := len(sc.Tasks)
		sc.Tasks = nil
		for i := 0; i < n; i++ {
			sc.Tasks = append(sc.Tasks, []Op{o})
		}
	}
	return sc, postOps(sc), ops
}

func (p c15) Run(seed uint64, run int, tier string, acc *Acc) *Violation {
	r := NewRng(Mix(seed, "C15", run))
	sc, post := genC15(r, tier)
	sc.Seed, sc.Run = seed, run
	acc.Runs++
	EventLog = sc.Hash()
	defer func() { acc.Hashes[run] = EventLog }()
	base := map[string]Obs{}
	if !c15Baselines(sc, allOps(sc, post), base, acc) {
		acc.Probe("setup-failed", 1)
		return nil
	}
	if sc.Quantum < 0 {
		// time slice = the length of the first task's call / the wanted number of slices
		q := base[opKey(sc.Tasks[0][0])].Steps / -sc.Quantum
		if q < 1 {
			q = 1
		}
		sc.Quantum = q
	}
	// dry run: no preemption
	dry, ok := execC15(sc, post, nil, 0, nil, true)
	if !ok {
		acc.Probe("setup-failed", 1)
		return nil
	}
	if dry.watchdog {
		acc.Trouble = append(acc.Trouble, "scheduler watchdog fired in dry run")
		return nil
	}
	acc.Evals++
	if os.Getenv("TWSIM_DEBUG") != "" {
		fmt.Fprintf(os.Stderr, "debug: C15 run %d family=%s tasks=%d quantum=%d nofd=%v first=%s deadlock=%v switches=%d\n", run, sc.Family, len(sc.Tasks), sc.Quantum, sc.NoFD, sc.Tasks[0][0], dry.sched.Deadlock, dry.sched.Switches)
	}
	if d := c15Check(sc, post, base, dry); d != nil {
		return p.violation(sc, post, base, d, dry)
	}
	type hit struct {
		step int64
		mut  bool
	}
	hits := make([][]hit, len(sc.Tasks))
	steps := make([]int64, len(sc.Tasks))
	for ti, t := range dry.sched.Tasks {
		steps[ti] = t.Steps
		acc.Steps += t.Steps
		for _, h := range t.Hits {
			hits[ti] = append(hits[ti], hit{h.Step, h.Site < 0 || simrt.Sites[h.Site].Mut})
		}
	}
	nsched := 12
	maxk := 3
	if tier == "thorough" {
		nsched, maxk = 24, 6
	}
	fam := sc.Family
	if fam == "" {
		fam = "after-load"
	}
	acc.Probe("family/"+fam, 1)
	if sc.NoFD {
		acc.Fault("out-of-file-descriptors", 1)
	}
	if run%53 == 0 {
		acc.Sample(map[string]any{"family": sc.Family, "tasks": tasksSummary(sc.Tasks), "task_steps": steps})
	}
	for si := 0; si < nsched; si++ {
		k := r.Range(1, maxk)
		var plan []simrt.Preempt
		for j := 0; j < k; j++ {
			ti := r.Intn(len(sc.Tasks))
			if steps[ti] == 0 {
				continue
			}
			var st int64
			var muts []int64
			for _, h := range hits[ti] {
				if h.mut {
					muts = append(muts, h.step)
				}
			}
			switch c := r.Intn(10); {
			case c < 6 && len(muts) > 0:
				st = muts[r.Intn(len(muts))]
				acc.Probe("preempt-at-mutable-shared-site", 1)
			case c < 8 && len(hits[ti]) > 0:
				st = hits[ti][r.Intn(len(hits[ti]))].step
				acc.Probe("preempt-at-shared-site", 1)
			default:
				st = 1 + int64(r.Intn(int(steps[ti])))
				acc.Probe("preempt-uniform", 1)
			}
			to := r.Intn(len(sc.Tasks))
			plan = append(plan, simrt.Preempt{Task: ti, Step: st, To: to})
		}
		first := r.Intn(len(sc.Tasks))
		var endCh []int
		for j := 0; j < len(sc.Tasks); j++ {
			endCh = append(endCh, r.Intn(3))
		}
		res, _ := execC15(sc, post, plan, first, endCh, true)
		if res.watchdog {
			acc.Trouble = append(acc.Trouble, "scheduler watchdog fired")
			return nil
		}
		acc.Evals++
		for _, t := range res.sched.Tasks {
			acc.Steps += t.Steps
		}
		acc.Probe("switches", int64(res.sched.Switches))
		acc.Fault("preemption", int64(len(plan)))
		acc.Fault("task-switch", int64(res.sched.Switches))
		if res.sched.Overlap {
			acc.Distinct[res.sched.InterleaveHash] = true
			acc.Probe("schedules-with-overlap", 1)
		}
		if d := c15Check(sc, post, base, res); d != nil {
			s := sc.Clone()
			s.Plan, s.First, s.EndCh = plan, first, endCh
			return p.violation(s, post, base, d, res)
		}
	}
	return nil
}

func (p c15) Replay(sc *Scenario, acc *Acc) *Violation {
	post := postOps(sc)
	base := map[string]Obs{}
	if !c15Baselines(sc, allOps(sc, post), base, acc) {
		return &Violation{Prop: "C15", Clause: "setup of the scenario fails on this tree", Sig: "setup-failed", Scenario: sc}
	}
	res, _ := execC15(sc, post, sc.Plan, sc.First, sc.EndCh, true)
	if res.watchdog {
		return &Violation{Prop: "C15", Clause: "scheduler watchdog", Sig: "watchdog", Scenario: sc}
	}
	d := c15Check(sc, post, base, res)
	if d == nil {
		return nil
	}
	v := p.violation(sc, post, base, d, res)
	return v
}

var _ = sort.Strings
