// twsim is the check binary. It is built by /verif/check against the
// instrumented scratch copy of /repo's working tree.
//
//	twsim run    -prop C14 -tier quick -seed N -verif /verif -tmp DIR   orchestrates worker processes
//	twsim worker ...                                                     one simulator per OS process
//	twsim replay -file F                                                 re-executes a stored scenario
package main

import (
	"encoding/json"
	"flag"
	"fmt"
	"os"
	"os/exec"
	"path/filepath"
	"runtime"
	"sort"
	"strconv"
	"strings"
	"sync"
	"time"

	"verif/sim"

	"github.com/textwire/textwire/v2/simrt"
)

func main() {
	if len(os.Args) < 2 {
		fmt.Fprintln(os.Stderr, "usage: twsim run|worker|replay|selftest ...")
		os.Exit(2)
	}
	switch os.Args[1] {
	case "run":
		os.Exit(cmdRun(os.Args[2:]))
	case "worker":
		os.Exit(cmdWorker(os.Args[2:]))
	case "replay":
		os.Exit(cmdReplay(os.Args[2:]))
	case "race":
		os.Exit(sim.RaceMain(os.Args[2:]))
	case "determinism":
		os.Exit(cmdDeterminism(os.Args[2:]))
	case "selftest":
		os.Exit(sim.SelfTest(os.Args[2:]))
	case "sites":
		for _, s := range simrt.Sites {
			fmt.Printf("%d\t%s\t%s\t%s\n", s.ID, s.Name, s.Kind, s.Pos)
		}
		os.Exit(0)
	}
	fmt.Fprintln(os.Stderr, "twsim: unknown command", os.Args[1])
	os.Exit(2)
}

func envInt(name string, def int) int {
	if v := os.Getenv(name); v != "" {
		if n, err := strconv.Atoi(v); err == nil {
			return n
		}
	}
	return def
}

// ---- worker ----------------------------------------------------------------------

func cmdWorker(args []string) int {
	fs := flag.NewFlagSet("worker", flag.ExitOnError)
	prop := fs.String("prop", "", "")
	tier := fs.String("tier", "quick", "")
	seed := fs.Uint64("seed", 1, "")
	from := fs.Int("from", 0, "")
	stride := fs.Int("stride", 1, "")
	runs := fs.Int("runs", 0, "")
	out := fs.String("out", "", "")
	deadline := fs.Int64("deadline", 0, "unix seconds after which no new run is started")
	fs.Parse(args)
	p, ok := sim.Props[*prop]
	if !ok {
		fmt.Fprintln(os.Stderr, "twsim: unknown property", *prop)
		return 2
	}
	acc := sim.NewAcc(*prop)
	seen := map[string]int{}
	for i := *from; i < *runs; i += *stride {
		if *deadline > 0 && time.Now().Unix() > *deadline {
			acc.Probe("stopped-at-deadline", 1)
			break
		}
		v := p.Run(*seed, i, *tier, acc)
		if v != nil {
			seen[v.Sig]++
			if seen[v.Sig] <= 1 {
				acc.Viol = append(acc.Viol, v)
			}
			acc.Probe("violating-runs", 1)
			if len(acc.Viol) >= 12 {
				break
			}
		}
	}
	if err := acc.Save(*out); err != nil {
		fmt.Fprintln(os.Stderr, "twsim worker:", err)
		return 2
	}
	return 0
}

// ---- replay ----------------------------------------------------------------------

type replayFile struct {
	Property  string        `json:"property"`
	Signature string        `json:"signature"`
	Clause    string        `json:"clause"`
	Detail    string        `json:"detail"`
	Expected  string        `json:"expected,omitempty"`
	Got       string        `json:"got,omitempty"`
	Unseamed  bool          `json:"unseamed,omitempty"`
	Scenario  *sim.Scenario `json:"scenario"`
}

func cmdReplay(args []string) int {
	fs := flag.NewFlagSet("replay", flag.ExitOnError)
	file := fs.String("file", "", "")
	quiet := fs.Bool("quiet", false, "")
	fs.Parse(args)
	b, err := os.ReadFile(*file)
	if err != nil {
		fmt.Fprintln(os.Stderr, "twsim replay:", err)
		return 2
	}
	var rf replayFile
	if err := json.Unmarshal(b, &rf); err != nil || rf.Scenario == nil {
		fmt.Fprintln(os.Stderr, "twsim replay: bad replay file:", err)
		return 2
	}
	p, ok := sim.Props[rf.Property]
	if !ok {
		fmt.Fprintln(os.Stderr, "twsim replay: unknown property", rf.Property)
		return 2
	}
	acc := sim.NewAcc(rf.Property)
	v := p.Replay(rf.Scenario, acc)
	if v == nil {
		if !*quiet {
			fmt.Printf("replay: no violation of %s on this tree (recorded signature %s)\n", rf.Property, rf.Signature)
		}
		return 0
	}
	fmt.Printf("REPLAY-SIGNATURE %s\n", v.Sig)
	if !*quiet {
		fmt.Printf("replay: %s violated: %s\n  %s\n  expected: %s\n  got:      %s\n", rf.Property, v.Clause, v.Detail, v.Expected, v.Got)
		fmt.Printf("VIOLATION property=%s replay=%s\n", rf.Property, *file)
	}
	return 1
}

// ---- run (orchestration) ---------------------------------------------------------

type knownFile struct {
	Findings []struct {
		Property  string `json:"property"`
		Signature string `json:"signature"`
		What      string `json:"what"`
	} `json:"findings"`
	Fixed []json.RawMessage `json:"fixed"`
}

func cmdRun(args []string) int {
	fs := flag.NewFlagSet("run", flag.ExitOnError)
	prop := fs.String("prop", "", "")
	tier := fs.String("tier", "quick", "")
	seed := fs.Uint64("seed", 1, "")
	verif := fs.String("verif", "/verif", "")
	tmp := fs.String("tmp", "", "")
	outDir := fs.String("out", "", "where evidence/ and replays/ are written (default: the -verif directory)")
	workers := fs.Int("workers", 0, "")
	runsFlag := fs.Int("runs", 0, "")
	fs.Parse(args)
	if *outDir == "" {
		*outDir = *verif
	}
	start := time.Now()
	p, ok := sim.Props[*prop]
	if !ok {
		fmt.Fprintln(os.Stderr, "twsim: unknown property", *prop)
		return 2
	}
	nw := *workers
	if nw <= 0 {
		nw = envInt("VERIF_WORKERS", runtime.NumCPU())
	}
	runs := *runsFlag
	if runs <= 0 {
		runs = envInt("VERIF_RUNS", p.Runs(*tier))
	}
	if nw > runs {
		nw = runs
	}
	budgetS := envInt("VERIF_BUDGET_S", map[string]int{"quick": 240, "thorough": 3000}[*tier])
	deadline := time.Now().Add(time.Duration(budgetS) * time.Second).Unix()
	self, _ := os.Executable()

	type wres struct {
		acc *sim.Acc
		err error
		log string
	}
	results := make([]wres, nw+1)
	var wg sync.WaitGroup
	launch := func(idx int, from, stride, nruns int, gomaxprocs string) {
		defer wg.Done()
		out := filepath.Join(*tmp, fmt.Sprintf("acc-%s-%d.json", *prop, idx))
		cmd := exec.Command(self, "worker", "-prop", *prop, "-tier", *tier, "-seed", fmt.Sprint(*seed),
			"-from", fmt.Sprint(from), "-stride", fmt.Sprint(stride), "-runs", fmt.Sprint(nruns), "-out", out,
			"-deadline", fmt.Sprint(deadline))
		cmd.Env = append(os.Environ(), "GOMAXPROCS="+gomaxprocs)
		b, err := cmd.CombinedOutput()
		if err != nil {
			results[idx] = wres{nil, err, string(b)}
			return
		}
		acc, err := sim.LoadAcc(out)
		results[idx] = wres{acc, err, string(b)}
	}
	for w := 0; w < nw; w++ {
		wg.Add(1)
		go launch(w, w, nw, runs, "2")
	}
	// determinism self-check: the first runs again, in another process, with another GOMAXPROCS
	nself := 6
	if *prop == "C14" {
		nself = map[string]int{"quick": 60, "thorough": 2000}[*tier]
	}
	if nself > runs {
		nself = runs
	}
	wg.Add(1)
	go launch(nw, 0, 1, nself, "1")
	wg.Wait()

	total := sim.NewAcc(*prop)
	for i, r := range results[:nw] {
		if r.err != nil || r.acc == nil {
			fmt.Fprintf(os.Stderr, "twsim: worker %d failed: %v\n%s\n", i, r.err, tail(r.log, 4000))
			return 2
		}
		total.Merge(r.acc)
	}
	if len(total.Trouble) > 0 {
		for _, t := range total.Trouble {
			fmt.Fprintln(os.Stderr, "twsim: harness trouble:", t)
		}
		return 2
	}
	selfOK := true
	sc := results[nw]
	if sc.err != nil || sc.acc == nil {
		fmt.Fprintf(os.Stderr, "twsim: self-check worker failed: %v\n%s\n", sc.err, tail(sc.log, 4000))
		return 2
	}
	compared := 0
	for run, h := range sc.acc.Hashes {
		if h2, ok := total.Hashes[run]; ok {
			compared++
			if h2 != h {
				selfOK = false
				fmt.Fprintf(os.Stderr, "twsim: DETERMINISM MISMATCH in run %d of %s: event-log hash %x vs %x\n", run, *prop, h, h2)
			}
		}
	}
	// C14 "across processes": the canonical replica of the same run, executed in another OS
	// process after a different sequence of earlier runs, must observe the same results.
	if *prop == "C14" && len(total.Viol) == 0 {
		for run, h := range sc.acc.ObsHash {
			if h2, ok := total.ObsHash[run]; ok && h2 != h {
				total.Viol = append(total.Viol, &sim.Violation{Prop: "C14", Clause: "the same scenario, canonical seams, observes different results in two OS processes",
					Sig: "cross-process", Unseamed: true, Detail: fmt.Sprintf("run %d of VERIF_SEED=%d (scenario = generator output for that run); statistical replay: re-run the check", run, *seed),
					Scenario: &sim.Scenario{Prop: "C14", Seed: *seed, Run: run, Note: "regenerate with sim.genC14(H(seed, C14, run))"}})
				break
			}
		}
	}
	if !selfOK && len(total.Viol) == 0 {
		// an event log that differs between two executions of the same run, with no violation of
		// the property to explain it, is trouble in the harness
		return 2
	}

	// C15: the -race companion (real goroutines, real disk, Go race detector)
	var raceInfo map[string]any
	if *prop == "C15" {
		rv, info, code := raceLayer(*tier, *seed, *tmp, nw)
		if code != 0 {
			return code
		}
		raceInfo = info
		total.Viol = append(total.Viol, rv...)
	}

	// classify violations
	var known knownFile
	if b, err := os.ReadFile(filepath.Join(*verif, "known_findings.json")); err == nil {
		if err := json.Unmarshal(b, &known); err != nil {
			fmt.Fprintln(os.Stderr, "twsim: known_findings.json:", err)
			return 2
		}
	}
	bySig := map[string]*sim.Violation{}
	var sigs []string
	for _, v := range total.Viol {
		if _, ok := bySig[v.Sig]; !ok {
			bySig[v.Sig] = v
			sigs = append(sigs, v.Sig)
		} else if v.Scenario != nil && bySig[v.Sig].Scenario != nil && v.Scenario.Run < bySig[v.Sig].Scenario.Run {
			bySig[v.Sig] = v
		}
	}
	sort.Strings(sigs)
	exit := 0
	nviol := 0
	var knownHit []string
	os.MkdirAll(filepath.Join(*outDir, "replays"), 0o755)
	for _, sig := range sigs {
		v := bySig[sig]
		isKnown := false
		for _, k := range known.Findings {
			if k.Property == *prop && k.Signature == sig {
				fmt.Printf("KNOWN-FINDING: property=%s %s [%s]\n", *prop, k.What, sig)
				knownHit = append(knownHit, sig)
				isKnown = true
			}
		}
		if isKnown {
			continue
		}
		path := filepath.Join(*outDir, "replays", fmt.Sprintf("%s-%d-%d-%s.json", *prop, v.Scenario.Seed, v.Scenario.Run, sanitize(sig)))
		rf := replayFile{Property: *prop, Signature: sig, Clause: v.Clause, Detail: v.Detail, Expected: v.Expected, Got: v.Got, Unseamed: v.Unseamed, Scenario: v.Scenario}
		b, _ := json.MarshalIndent(rf, "", " ")
		if err := os.WriteFile(path, b, 0o644); err != nil {
			fmt.Fprintln(os.Stderr, "twsim:", err)
			return 2
		}
		// the minimised file must fail the same way in a fresh process
		if !v.Unseamed && !strings.HasPrefix(sig, "race-detector:") {
			outb, _ := exec.Command(self, "replay", "-quiet", "-file", path).CombinedOutput()
			if !strings.Contains(string(outb), "REPLAY-SIGNATURE "+sig+"\n") {
				fmt.Fprintf(os.Stderr, "twsim: replay of %s in a fresh process did not reproduce signature %q:\n%s\n", path, sig, tail(string(outb), 2000))
				return 2
			}
		}
		fmt.Printf("%s violated: %s\n  signature: %s\n  %s\n  expected: %s\n  got:      %s\n", *prop, v.Clause, sig, v.Detail, v.Expected, v.Got)
		fmt.Printf("VIOLATION property=%s replay=%s\n", *prop, path)
		exit = 1
		nviol++
	}

	// evidence
	wall := time.Since(start).Seconds()
	samples := total.Samples
	if len(samples) == 0 {
		samples = []any{"(no sample recorded)"}
	}
	var siteKinds = map[string]int{}
	for _, s := range simrt.Sites {
		siteKinds[s.Kind]++
	}
	cov := map[string]any{
		"evaluations":            total.Evals,
		"distinct_nontrivial":    len(total.Distinct),
		"rule":                   p.Rule(),
		"samples":                samples,
		"runs":                   total.Runs,
		"runs_planned":           runs,
		"seeds":                  fmt.Sprintf("VERIF_SEED=%d, run i uses H(seed, %s, i), i in [0,%d)", *seed, *prop, runs),
		"runs_per_hour":          int(float64(total.Runs) / wall * 3600),
		"sim_steps":              total.Steps,
		"simulated_time":         "the code has no timers; simulated time is the step count (1 step = 1 simulated microsecond)",
		"fault_counts_fired":     total.Faults,
		"reach_probes":           total.Probes,
		"workers":                nw,
		"determinism_selfcheck":  map[string]any{"runs_compared": compared, "second_process_gomaxprocs": 1, "ok": selfOK},
		"instrumented_sites":     siteKinds,
		"real_components":        []string{"textwire (root package), lexer, parser, ast, evaluator, object, token, fail, ctx, config, utils — compiled from /repo's working tree after the twinstr rewrite"},
		"stub_components":        []string{"map iteration order (simrt.Keys)", "disk (simrt.MemFS)", "http.ResponseWriter (sim.SimWriter)", "wall clock and global math/rand (simrt.Now/Rand)", "goroutine scheduler (simrt.Sched: one runnable task at a time)"},
		"known_findings_matched": knownHit,
		"toolchain":              runtime.Version(),
		"exhaustive":             false,
	}
	ev := map[string]any{
		"property_id": *prop,
		"tier":        *tier,
		"seed":        *seed,
		"level":       p.Level(),
		"coverage":    cov,
		"assumptions": p.Assumptions(),
		"wall_s":      wall,
		"violations":  nviol,
	}
	if raceInfo != nil {
		cov["race_companion"] = raceInfo
	}
	if extra := sim.ExtraEvidence[*prop]; extra != nil {
		for k, v := range extra(total) {
			cov[k] = v
		}
	}
	os.MkdirAll(filepath.Join(*outDir, "evidence"), 0o755)
	b, _ := json.MarshalIndent(ev, "", " ")
	if err := os.WriteFile(filepath.Join(*outDir, "evidence", *prop+".json"), b, 0o644); err != nil {
		fmt.Fprintln(os.Stderr, "twsim:", err)
		return 2
	}
	fmt.Printf("%s %s: %d runs, %d evaluations, %d distinct non-trivial, %d sim steps, %.1fs, violations=%d known=%d\n",
		*prop, *tier, total.Runs, total.Evals, len(total.Distinct), total.Steps, wall, nviol, len(knownHit))
	if len(total.Distinct) < 2 || total.Evals < 1 {
		fmt.Fprintln(os.Stderr, "twsim: coverage too small to mean anything")
		return 2
	}
	return exit
}

// raceLayer runs the -race build of this binary on generated C15 scenarios.
func raceLayer(tier string, seed uint64, tmp string, nw int) ([]*sim.Violation, map[string]any, int) {
	bin := os.Getenv("TWSIM_RACE_BIN")
	if bin == "" {
		fmt.Fprintln(os.Stderr, "twsim: C15 needs the -race build of twsim (TWSIM_RACE_BIN)")
		return nil, nil, 2
	}
	n := envInt("VERIF_RACE_SCENARIOS", map[string]int{"quick": 64, "thorough": 1600}[tier])
	reps := map[string]int{"quick": 60, "thorough": 200}[tier]
	type rres struct {
		v    *sim.Violation
		code int
		err  string
	}
	results := make([]rres, n)
	var wg sync.WaitGroup
	sem := make(chan struct{}, nw)
	for i := 0; i < n; i++ {
		i := i
		wg.Add(1)
		sem <- struct{}{}
		go func() {
			defer wg.Done()
			defer func() { <-sem }()
			dir := filepath.Join(tmp, fmt.Sprintf("race-%d", i))
			os.MkdirAll(dir, 0o755)
			defer os.RemoveAll(dir)
			v, code, msg := runRaceChild(bin, []string{"-seed", fmt.Sprint(seed), "-run", fmt.Sprint(i)}, dir, reps, []string{"2", "4", "16"}[i%3], seed, i)
			results[i] = rres{v, code, msg}
		}()
	}
	wg.Wait()
	var out []*sim.Violation
	races, div := 0, 0
	for i, r := range results {
		if r.code == 2 {
			fmt.Fprintf(os.Stderr, "twsim: race child %d: trouble:\n%s\n", i, tail(r.err, 3000))
			return nil, nil, 2
		}
		if r.v != nil {
			out = append(out, r.v)
			if r.code == 66 {
				races++
			} else {
				div++
			}
		}
	}
	info := map[string]any{"scenarios": n, "goroutines": 8, "repetitions_per_goroutine": reps, "gomaxprocs": []int{2, 4, 16},
		"race_reports": races, "divergences": div, "note": "real goroutines under the Go race detector; not schedule-controlled, reports are not bit-exactly replayable"}
	return out, info, 0
}

func runRaceChild(bin string, args []string, dir string, reps int, gomaxprocs string, seed uint64, run int) (*sim.Violation, int, string) {
	full := append([]string{"race", "-dir", dir, "-reps", fmt.Sprint(reps)}, args...)
	cmd := exec.Command(bin, full...)
	cmd.Env = append(os.Environ(), "GOMAXPROCS="+gomaxprocs, "GORACE=halt_on_error=1 exitcode=66")
	b, err := cmd.CombinedOutput()
	if err == nil {
		return nil, 0, ""
	}
	code := 2
	if ee, ok := err.(*exec.ExitError); ok {
		code = ee.ExitCode()
	}
	text := string(b)
	sc := &sim.Scenario{Prop: "C15", Seed: seed, Run: run, Family: "race-companion", Note: "generated by sim.genC15 from H(seed, C15race, run); re-run with: twsim(-race) race -seed <seed> -run <run>"}
	switch code {
	case 66:
		a, bfn := raceFrames(text)
		if a > bfn {
			a, bfn = bfn, a
		}
		return &sim.Violation{Prop: "C15", Clause: "data race reported by the Go race detector while goroutines use the rendering entry points concurrently",
			Sig: "race-detector:" + a + "~" + bfn, Detail: tail(firstRaceBlock(text), 2500), Scenario: sc, Unseamed: true}, 66, ""
	case 3:
		return &sim.Violation{Prop: "C15", Clause: "a call running on real concurrent goroutines returned something else than its sequential baseline",
			Sig: "real-threads-diverge", Detail: tail(text, 2500), Scenario: sc, Unseamed: true}, 3, ""
	}
	if strings.Contains(text, "fatal error: concurrent map") {
		return &sim.Violation{Prop: "C15", Clause: "the Go runtime detected concurrent map access", Sig: "race-detector:concurrent-map", Detail: tail(text, 2500), Scenario: sc, Unseamed: true}, 66, ""
	}
	return nil, 2, text
}

func firstRaceBlock(s string) string {
	i := strings.Index(s, "WARNING: DATA RACE")
	if i < 0 {
		return s
	}
	s = s[i:]
	if j := strings.Index(s, "=================="); j > 0 {
		s = s[:j]
	}
	return s
}

// raceFrames extracts, for each of the two accesses of a race report, the
// innermost frame inside the textwire module (not simrt, not the harness).
func raceFrames(s string) (string, string) {
	blk := firstRaceBlock(s)
	var frames []string
	cur := ""
	inStack := false
	for _, line := range strings.Split(blk, "\n") {
		t := strings.TrimSpace(line)
		switch {
		case strings.HasPrefix(t, "Write at"), strings.HasPrefix(t, "Read at"), strings.HasPrefix(t, "Previous write at"), strings.HasPrefix(t, "Previous read at"):
			if inStack {
				frames = append(frames, cur)
			}
			inStack, cur = true, ""
			if strings.Contains(t, "rite") {
				cur = "w:"
			} else {
				cur = "r:"
			}
		case strings.HasPrefix(t, "Goroutine "):
			if inStack {
				frames = append(frames, cur)
			}
			inStack = false
		case inStack && strings.Contains(t, "textwire/v2") && strings.HasSuffix(t, ")") && !strings.Contains(t, "/simrt.") && len(cur) == 2:
			fn := t
			if k := strings.LastIndex(fn, "("); k > 0 {
				fn = fn[:k]
			}
			fn = strings.TrimPrefix(fn, "github.com/textwire/textwire/")
			cur += fn
		}
	}
	if inStack {
		frames = append(frames, cur)
	}
	for len(frames) < 2 {
		frames = append(frames, "?")
	}
	return frames[0], frames[1]
}

// cmdDeterminism is `./check selftest determinism`: for every property, several
// VERIF_SEED values, the first runs executed in many fresh processes at
// GOMAXPROCS 1/4/16 and with different run partitions; the per-run event-log
// hashes (every observation, step count, order and interleaving hash) must be
// identical across all processes.
func cmdDeterminism(args []string) int {
	fs := flag.NewFlagSet("determinism", flag.ExitOnError)
	tmp := fs.String("tmp", "", "")
	propsFlag := fs.String("props", "C14,C15,C16,C17,C18,C20", "")
	seeds := fs.Int("seeds", 8, "")
	runs := fs.Int("runs", 6, "")
	procs := fs.Int("procs", 30, "")
	fs.Parse(args)
	self, _ := os.Executable()
	bad := 0
	for _, prop := range strings.Split(*propsFlag, ",") {
		compared := 0
		for s := 1; s <= *seeds; s++ {
			type res struct {
				h   map[int]uint64
				err error
				log string
			}
			out := make([]res, *procs)
			var wg sync.WaitGroup
			sem := make(chan struct{}, runtime.NumCPU())
			for j := 0; j < *procs; j++ {
				j := j
				wg.Add(1)
				sem <- struct{}{}
				go func() {
					defer wg.Done()
					defer func() { <-sem }()
					f := filepath.Join(*tmp, fmt.Sprintf("det-%s-%d-%d.json", prop, s, j))
					from, stride := 0, 1
					if j%3 == 1 {
						from, stride = 0, 2
					} else if j%3 == 2 {
						from, stride = 1, 2
					}
					cmd := exec.Command(self, "worker", "-prop", prop, "-tier", "quick", "-seed", fmt.Sprint(s*1000003), "-from", fmt.Sprint(from),
						"-stride", fmt.Sprint(stride), "-runs", fmt.Sprint(*runs), "-out", f)
					cmd.Env = append(os.Environ(), "GOMAXPROCS="+[]string{"1", "4", "16"}[j%3])
					b, err := cmd.CombinedOutput()
					if err != nil {
						out[j] = res{nil, err, string(b)}
						return
					}
					acc, err := sim.LoadAcc(f)
					os.Remove(f)
					if err != nil {
						out[j] = res{nil, err, ""}
						return
					}
					out[j] = res{acc.Hashes, nil, ""}
				}()
			}
			wg.Wait()
			ref := map[int]uint64{}
			for j, r := range out {
				if r.err != nil {
					fmt.Printf("determinism: %s seed %d process %d failed: %v\n%s\n", prop, s, j, r.err, tail(r.log, 1500))
					return 2
				}
				for run, h := range r.h {
					compared++
					if h0, ok := ref[run]; !ok {
						ref[run] = h
					} else if h0 != h {
						bad++
						fmt.Printf("determinism: %s seed %d run %d: process %d has event-log hash %x, another has %x\n", prop, s, run, j, h, h0)
					}
				}
			}
		}
		fmt.Printf("determinism: %s: %d (seed, run, process) event-log hashes compared over %d seeds x %d runs x %d processes (GOMAXPROCS 1/4/16, three run partitions): %d mismatches\n",
			prop, compared, *seeds, *runs, *procs, bad)
	}
	if bad > 0 {
		return 2
	}
	return 0
}

func sanitize(s string) string {
	var b strings.Builder
	for _, c := range s {
		switch {
		case c >= 'a' && c <= 'z', c >= 'A' && c <= 'Z', c >= '0' && c <= '9', c == '.', c == '-':
			b.WriteRune(c)
		default:
			b.WriteByte('_')
		}
	}
	out := b.String()
	if len(out) > 80 {
		out = out[:80]
	}
	return out
}

func tail(s string, n int) string {
	if len(s) > n {
		return s[len(s)-n:]
	}
	return s
}
