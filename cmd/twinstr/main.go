// twinstr rewrites a scratch copy of textwire so that every source of
// nondeterminism the claimed properties depend on goes through package simrt:
//
//	T1  range over a map            -> range over simrt.Keys(m, site) + lookup
//	T2  reflect MapKeys / maps.Keys -> simrt.PermuteValues / simrt.MapsKeys ...
//	T3  os / filepath I/O calls     -> simrt.ReadFile / Walk / Abs ...
//	T4  time.Now, global math/rand  -> simrt.Now / simrt.Rand()
//	T5  simrt.Yield(site) at function entry, loop head, before statements that
//	    mention package-level variables and before heap writes
//	T6  sync.Mutex/RWMutex/Once/Pool -> simrt equivalents
//	T7  a generated reset of every package-level variable (simrt.ResetAll)
//
// Anything it cannot put behind a seam (channels, select, go statements, unsafe,
// cgo, unknown I/O packages) is refused with exit status 2.
package main

import (
	"bytes"
	"encoding/json"
	"fmt"
	"go/ast"
	"go/format"
	"go/printer"
	"go/token"
	"go/types"
	"os"
	"path/filepath"
	"sort"
	"strconv"
	"strings"

	"golang.org/x/tools/go/ast/astutil"
	"golang.org/x/tools/go/packages"
)

type access struct {
	Loc   string
	Write bool
}

type site struct {
	ID     int
	Name   string
	Kind   string
	Pos    string
	Shared bool
	Mut    bool
	Acc    []access
}

var (
	sites     []site
	refusals  []string
	modPath   string
	simrtPath string
	mutVars   = map[*types.Var]bool{}
	fset      *token.FileSet
	rootDir   string
	stats     = map[string]int{}
)

func refuse(pos token.Pos, format string, a ...any) {
	refusals = append(refusals, fmt.Sprintf("%s: %s", fset.Position(pos), fmt.Sprintf(format, a...)))
}

// packages of the standard library that need no seam at all
var pureStd = map[string]bool{
	"strings": true, "bytes": true, "fmt": true, "html": true, "strconv": true, "errors": true,
	"math": true, "math/bits": true, "math/big": true, "sort": true, "slices": true, "unicode": true, "unicode/utf8": true,
	"unicode/utf16": true, "embed": true, "path": true, "log": true, "regexp": true, "encoding/json": true,
	"net/http": true, "io": true, "io/fs": true, "bufio": true, "cmp": true, "iter": true, "context": true,
	"hash/fnv": true, "hash/crc32": true, "hash/maphash": true, "crypto/sha256": true, "crypto/sha1": true, "crypto/md5": true,
	"encoding/hex": true, "encoding/base64": true, "text/tabwriter": true, "html/template": true, "text/template": true,
	"runtime/debug": true, "net/url": true, "container/list": true, "container/heap": true, "sync/atomic": true, "testing": true,
}

// packages with partial seams: listed functions are redirected, listed pure ones are allowed, other functions refused
var shimFuncs = map[string]map[string]string{
	"os":            {"ReadFile": "ReadFile", "Stat": "Stat", "Lstat": "Lstat", "ReadDir": "ReadDir", "Getwd": "Getwd", "Open": "Open", "SameFile": "SameFile"},
	"path/filepath": {"Walk": "Walk", "WalkDir": "WalkDir", "Abs": "Abs", "Glob": "Glob"},
	"time":          {"Now": "Now", "Since": "Since", "Until": "Until", "Sleep": "Sleep"},
	"io/ioutil":     {"ReadFile": "ReadFile"},
	"runtime":       {"GOMAXPROCS": "GOMAXPROCS", "NumCPU": "NumCPU", "Gosched": "Gosched"},
}

var allowedFuncs = map[string]map[string]bool{
	"os":            {"IsNotExist": true, "IsExist": true, "IsPermission": true, "Getenv": false},
	"path/filepath": {"Join": true, "Clean": true, "Rel": true, "Base": true, "Dir": true, "Ext": true, "IsAbs": true, "Split": true, "ToSlash": true, "FromSlash": true, "Match": true, "VolumeName": true, "SplitList": true, "IsLocal": true},
	"time":          {"Unix": true, "UnixMilli": true, "Date": true, "Parse": true, "ParseDuration": true, "Duration": true},
	"math/rand":     {"New": true, "NewSource": true},
	"reflect":       {},
	"sync":          {},
	"maps":          {},
	"syscall":       {}, // error numbers and types only; every function of the package is refused
}

// global math/rand functions that exist as methods of *rand.Rand
var randMethods = map[string]bool{"Int": true, "Intn": true, "Int31": true, "Int31n": true, "Int63": true, "Int63n": true,
	"Uint32": true, "Uint64": true, "Float32": true, "Float64": true, "Perm": true, "Shuffle": true, "NormFloat64": true, "ExpFloat64": true, "Read": true}

var syncTypes = map[string]string{"Mutex": "Mutex", "RWMutex": "RWMutex", "Once": "Once", "Pool": "Pool", "Map": "Map", "WaitGroup": "WaitGroup"}

func main() {
	if len(os.Args) != 3 {
		fmt.Fprintln(os.Stderr, "usage: twinstr <scratch-repo-dir> <simrt-source-dir>")
		os.Exit(2)
	}
	rootDir, _ = filepath.Abs(os.Args[1])
	simrtSrc := os.Args[2]

	cfg := &packages.Config{
		Mode: packages.NeedName | packages.NeedFiles | packages.NeedCompiledGoFiles | packages.NeedSyntax |
			packages.NeedTypes | packages.NeedTypesInfo | packages.NeedImports | packages.NeedDeps | packages.NeedModule,
		Dir:   rootDir,
		Tests: false,
	}
	pkgs, err := packages.Load(cfg, "./...")
	if err != nil {
		fmt.Fprintln(os.Stderr, "twinstr: load:", err)
		os.Exit(2)
	}
	bad := false
	packages.Visit(pkgs, nil, func(p *packages.Package) {
		for _, e := range p.Errors {
			fmt.Fprintln(os.Stderr, "twinstr: type error:", e)
			bad = true
		}
	})
	if bad {
		os.Exit(2)
	}
	for _, p := range pkgs {
		if p.Module != nil && p.Module.Main {
			modPath = p.Module.Path
		}
	}
	if modPath == "" {
		fmt.Fprintln(os.Stderr, "twinstr: cannot determine module path")
		os.Exit(2)
	}
	simrtPath = modPath + "/simrt"

	// topological order (dependencies first) of the module's packages
	order := map[string]int{}
	packages.Visit(pkgs, nil, func(p *packages.Package) {
		if strings.HasPrefix(p.PkgPath, modPath) {
			order[p.PkgPath] = len(order) + 1
		}
	})

	var sel []*packages.Package
	for _, p := range pkgs {
		if p.Name == "main" || strings.Contains(p.PkgPath, "/lsp") || strings.HasSuffix(p.PkgPath, "/simrt") {
			continue
		}
		sel = append(sel, p)
	}
	sort.Slice(sel, func(i, j int) bool { return order[sel[i].PkgPath] < order[sel[j].PkgPath] })
	if len(sel) == 0 {
		fmt.Fprintln(os.Stderr, "twinstr: no packages selected")
		os.Exit(2)
	}
	fset = sel[0].Fset

	// pass 0: which package-level variables are written anywhere in the module
	for _, p := range sel {
		for _, f := range p.Syntax {
			findMutated(p, f)
		}
	}

	type outFile struct {
		name string
		data []byte
	}
	var outs []outFile
	for _, p := range sel {
		for i, f := range p.Syntax {
			name := p.CompiledGoFiles[i]
			if strings.HasSuffix(name, "_test.go") || !strings.HasPrefix(name, rootDir) {
				continue
			}
			r := &rewriter{pkg: p, file: f, order: order[p.PkgPath]}
			data := r.rewriteFile()
			outs = append(outs, outFile{name, data})
		}
	}
	if len(refusals) > 0 {
		for _, r := range refusals {
			fmt.Fprintln(os.Stderr, "twinstr: refused:", r)
		}
		os.Exit(2)
	}
	for _, o := range outs {
		if err := os.WriteFile(o.name, o.data, 0o644); err != nil {
			fmt.Fprintln(os.Stderr, "twinstr:", err)
			os.Exit(2)
		}
	}

	// copy simrt and write the site table
	dst := filepath.Join(rootDir, "simrt")
	os.RemoveAll(dst)
	os.MkdirAll(dst, 0o755)
	ents, err := os.ReadDir(simrtSrc)
	if err != nil {
		fmt.Fprintln(os.Stderr, "twinstr:", err)
		os.Exit(2)
	}
	for _, e := range ents {
		if e.IsDir() || !strings.HasSuffix(e.Name(), ".go") || strings.HasSuffix(e.Name(), "_test.go") {
			continue
		}
		b, _ := os.ReadFile(filepath.Join(simrtSrc, e.Name()))
		os.WriteFile(filepath.Join(dst, e.Name()), b, 0o644)
	}
	var sb bytes.Buffer
	sb.WriteString("// Code generated by twinstr. DO NOT EDIT.\n\npackage simrt\n\nfunc init() {\n\tSites = []Site{\n")
	for _, s := range sites {
		fmt.Fprintf(&sb, "\t\t{ID: %d, Name: %q, Kind: %q, Pos: %q, Shared: %v, Mut: %v", s.ID, s.Name, s.Kind, s.Pos, s.Shared, s.Mut)
		if len(s.Acc) > 0 {
			sb.WriteString(", Acc: []Access{")
			for _, a := range s.Acc {
				fmt.Fprintf(&sb, "{%q, %v}, ", a.Loc, a.Write)
			}
			sb.WriteString("}")
		}
		sb.WriteString("},\n")
	}
	sb.WriteString("\t}\n}\n")
	src, err := format.Source(sb.Bytes())
	if err != nil {
		fmt.Fprintln(os.Stderr, "twinstr: sites_gen:", err)
		os.Exit(2)
	}
	os.WriteFile(filepath.Join(dst, "sites_gen.go"), src, 0o644)

	summary := map[string]any{"sites": len(sites), "stats": stats, "packages": len(sel), "module": modPath}
	js, _ := json.Marshal(summary)
	os.WriteFile(filepath.Join(rootDir, "twinstr_summary.json"), js, 0o644)
	fmt.Println(string(js))
}

// ---------------------------------------------------------------------------

func isModuleVar(obj types.Object) (*types.Var, bool) {
	v, ok := obj.(*types.Var)
	if !ok || v.IsField() || v.Pkg() == nil {
		return nil, false
	}
	if v.Parent() != v.Pkg().Scope() {
		return nil, false
	}
	if !strings.HasPrefix(v.Pkg().Path(), modPath) {
		return nil, false
	}
	return v, true
}

func shortPkg(path string) string {
	if path == modPath {
		return "textwire"
	}
	return strings.TrimPrefix(path, modPath+"/")
}

// rootVar finds the package-level variable an lvalue expression is rooted at.
func rootVar(info *types.Info, e ast.Expr) *types.Var {
	for {
		switch x := e.(type) {
		case *ast.Ident:
			if v, ok := isModuleVar(info.Uses[x]); ok {
				return v
			}
			return nil
		case *ast.SelectorExpr:
			if id, ok := x.X.(*ast.Ident); ok {
				if _, isPkg := info.Uses[id].(*types.PkgName); isPkg {
					if v, ok := isModuleVar(info.Uses[x.Sel]); ok {
						return v
					}
					return nil
				}
			}
			e = x.X
		case *ast.IndexExpr:
			e = x.X
		case *ast.StarExpr:
			e = x.X
		case *ast.ParenExpr:
			e = x.X
		default:
			return nil
		}
	}
}

func findMutated(p *packages.Package, f *ast.File) {
	ast.Inspect(f, func(n ast.Node) bool {
		switch s := n.(type) {
		case *ast.AssignStmt:
			for _, l := range s.Lhs {
				if v := rootVar(p.TypesInfo, l); v != nil {
					mutVars[v] = true
				}
			}
		case *ast.IncDecStmt:
			if v := rootVar(p.TypesInfo, s.X); v != nil {
				mutVars[v] = true
			}
		case *ast.UnaryExpr:
			if s.Op == token.AND {
				if v := rootVar(p.TypesInfo, s.X); v != nil {
					mutVars[v] = true
				}
			}
		case *ast.CallExpr:
			if id, ok := s.Fun.(*ast.Ident); ok && (id.Name == "delete" || id.Name == "clear") && len(s.Args) > 0 {
				if v := rootVar(p.TypesInfo, s.Args[0]); v != nil {
					mutVars[v] = true
				}
			}
		}
		return true
	})
}

type rewriter struct {
	pkg     *packages.Package
	file    *ast.File
	order   int
	fn      string         // current function name
	counter map[string]int // per (func,kind) ordinals
	needImp bool
	tmpN    int
}

func (r *rewriter) info() *types.Info { return r.pkg.TypesInfo }

func (r *rewriter) newSite(kind string, pos token.Pos, shared bool, acc []access, mut bool) int {
	key := r.fn + "#" + kind
	r.counter[key]++
	p := fset.Position(pos)
	rel, _ := filepath.Rel(rootDir, p.Filename)
	s := site{
		ID:     len(sites),
		Name:   fmt.Sprintf("%s.%s#%s#%d", shortPkg(r.pkg.PkgPath), r.fn, kind, r.counter[key]),
		Kind:   kind,
		Pos:    fmt.Sprintf("%s:%d", rel, p.Line),
		Shared: shared,
		Mut:    mut,
		Acc:    acc,
	}
	sites = append(sites, s)
	stats[kind]++
	r.needImp = true
	return s.ID
}

func simrtCall(name string, args ...ast.Expr) *ast.CallExpr {
	return &ast.CallExpr{Fun: &ast.SelectorExpr{X: ast.NewIdent("simrt"), Sel: ast.NewIdent(name)}, Args: args}
}

func intLit(i int) ast.Expr { return &ast.BasicLit{Kind: token.INT, Value: strconv.Itoa(i)} }

func (r *rewriter) yieldStmt(id int) ast.Stmt {
	return &ast.ExprStmt{X: simrtCall("Yield", intLit(id))}
}

func (r *rewriter) rewriteFile() []byte {
	f := r.file
	r.counter = map[string]int{}

	// cgo / unsafe / disallowed imports
	for _, imp := range f.Imports {
		path, _ := strconv.Unquote(imp.Path.Value)
		if path == "C" || path == "unsafe" {
			refuse(imp.Pos(), "import %q cannot be simulated", path)
		}
		if strings.HasPrefix(path, modPath) {
			continue
		}
		if pureStd[path] {
			continue
		}
		if _, ok := shimFuncs[path]; ok {
			continue
		}
		if _, ok := allowedFuncs[path]; ok {
			continue
		}
		refuse(imp.Pos(), "import %q has no seam (not on the allow-list)", path)
	}

	// statement-level rewrites per function body (T1, T5, T8) — first, while every node is
	// still an original one with type information
	var resetSnips []string
	for _, d := range f.Decls {
		switch d := d.(type) {
		case *ast.FuncDecl:
			if d.Body == nil {
				continue
			}
			r.fn = funcName(d)
			r.body(d.Body, d.Pos())
			r.funcLits(d.Body, r.fn)
		case *ast.GenDecl:
			if d.Tok == token.VAR {
				r.fn = "var"
				r.funcLits(d, "var")
			}
		}
	}
	r.fn = "file"
	// expression-level rewrites (T2, T3, T4, T6, T8)
	r.rewriteExprs()

	// T7 reset snippets
	resetSnips = r.resetSnippets()
	if len(resetSnips) > 0 {
		r.needImp = true
	}

	// drop comments inside function bodies (new nodes carry no positions)
	var keep []*ast.CommentGroup
	for _, cg := range f.Comments {
		inside := false
		for _, d := range f.Decls {
			if fd, ok := d.(*ast.FuncDecl); ok && fd.Body != nil && cg.Pos() > fd.Body.Lbrace && cg.End() < fd.Body.Rbrace {
				inside = true
			}
			if gd, ok := d.(*ast.GenDecl); ok && gd.Tok == token.VAR && cg.Pos() > gd.Pos() && cg.End() < gd.End() {
				// comments inside var declarations could sit in function literals
				hasLit := false
				ast.Inspect(gd, func(n ast.Node) bool {
					if _, ok := n.(*ast.FuncLit); ok {
						hasLit = true
					}
					return true
				})
				if hasLit {
					inside = true
				}
			}
		}
		if !inside {
			keep = append(keep, cg)
		}
	}
	f.Comments = keep

	if r.needImp {
		astutil.AddNamedImport(fset, f, "simrt", simrtPath)
	}
	r.pruneImports()

	var buf bytes.Buffer
	if err := format.Node(&buf, fset, f); err != nil {
		fmt.Fprintf(os.Stderr, "twinstr: print %s: %v\n", fset.Position(f.Pos()).Filename, err)
		os.Exit(2)
	}
	if len(resetSnips) > 0 {
		buf.WriteString("\nfunc init() {\n")
		for _, s := range resetSnips {
			buf.WriteString(s)
		}
		buf.WriteString("}\n")
	}
	out, err := format.Source(buf.Bytes())
	if err != nil {
		fmt.Fprintf(os.Stderr, "twinstr: format %s: %v\n", fset.Position(f.Pos()).Filename, err)
		os.WriteFile("/tmp/twinstr_bad.go", buf.Bytes(), 0o644)
		os.Exit(2)
	}
	return out
}

func funcName(d *ast.FuncDecl) string {
	if d.Recv != nil && len(d.Recv.List) > 0 {
		t := d.Recv.List[0].Type
		for {
			switch x := t.(type) {
			case *ast.StarExpr:
				t = x.X
				continue
			case *ast.IndexExpr:
				t = x.X
				continue
			case *ast.IndexListExpr:
				t = x.X
				continue
			}
			break
		}
		if id, ok := t.(*ast.Ident); ok {
			return id.Name + "." + d.Name.Name
		}
	}
	return d.Name.Name
}

// funcLits instruments the bodies of all function literals below n.
func (r *rewriter) funcLits(n ast.Node, parent string) {
	idx := 0
	ast.Inspect(n, func(x ast.Node) bool {
		if fl, ok := x.(*ast.FuncLit); ok {
			idx++
			saved := r.fn
			r.fn = fmt.Sprintf("%s$%d", parent, idx)
			r.body(fl.Body, fl.Pos())
			r.fn = saved
		}
		return true
	})
}

func (r *rewriter) body(b *ast.BlockStmt, pos token.Pos) {
	id := r.newSite("entry", pos, false, nil, false)
	list := r.block(b.List)
	b.List = append([]ast.Stmt{r.yieldStmt(id)}, list...)
}

func (r *rewriter) block(list []ast.Stmt) []ast.Stmt {
	var out []ast.Stmt
	for _, s := range list {
		out = append(out, r.stmt(s)...)
	}
	return out
}

// headerExprs returns the parts of a statement that are evaluated as part of
// the statement itself (not its nested blocks).
func headerNodes(s ast.Stmt) []ast.Node {
	switch s := s.(type) {
	case *ast.IfStmt:
		return nn(s.Init, s.Cond)
	case *ast.ForStmt:
		return nn(s.Init, s.Cond, s.Post)
	case *ast.RangeStmt:
		return nn(s.X)
	case *ast.SwitchStmt:
		return nn(s.Init, s.Tag)
	case *ast.TypeSwitchStmt:
		return nn(s.Init, s.Assign)
	case *ast.BlockStmt, *ast.LabeledStmt, *ast.SelectStmt, *ast.CaseClause, *ast.CommClause, *ast.EmptyStmt, *ast.BranchStmt:
		return nil
	}
	return []ast.Node{s}
}

func nn(ns ...ast.Node) []ast.Node {
	var out []ast.Node
	for _, n := range ns {
		if n == nil {
			continue
		}
		// typed nils
		switch v := n.(type) {
		case ast.Stmt:
			if v == nil || isNilNode(v) {
				continue
			}
		case ast.Expr:
			if v == nil || isNilNode(v) {
				continue
			}
		}
		out = append(out, n)
	}
	return out
}

func isNilNode(n ast.Node) bool {
	switch v := n.(type) {
	case *ast.AssignStmt:
		return v == nil
	case *ast.ExprStmt:
		return v == nil
	case *ast.IncDecStmt:
		return v == nil
	case *ast.DeclStmt:
		return v == nil
	}
	return false
}

func (r *rewriter) stmt(s ast.Stmt) []ast.Stmt {
	if s == nil {
		return nil
	}
	if ls, ok := s.(*ast.LabeledStmt); ok {
		inner := r.stmt(ls.Stmt)
		ls.Stmt = inner[len(inner)-1]
		return append(inner[:len(inner)-1:len(inner)-1], ls)
	}
	var pre []ast.Stmt
	hdr := headerNodes(s)
	if len(hdr) > 0 {
		acc, mut := r.accesses(s, hdr)
		if len(acc) > 0 {
			pre = append(pre, r.yieldStmt(r.newSite("pkgvar", s.Pos(), true, acc, mut)))
		} else if r.isHeapWrite(s) {
			pre = append(pre, r.yieldStmt(r.newSite("heapw", s.Pos(), true, nil, false)))
		} else if r.usesAtomic(hdr) {
			// an atomic operation is a synchronisation point: other tasks may run between two of them
			pre = append(pre, r.yieldStmt(r.newSite("atomic", s.Pos(), true, nil, true)))
		}
	}
	switch s := s.(type) {
	case *ast.BlockStmt:
		s.List = r.block(s.List)
	case *ast.IfStmt:
		s.Body.List = r.block(s.Body.List)
		switch e := s.Else.(type) {
		case *ast.IfStmt:
			s.Else = &ast.BlockStmt{List: r.stmt(e)}
		case *ast.BlockStmt:
			e.List = r.block(e.List)
		}
	case *ast.ForStmt:
		id := r.newSite("loop", s.Pos(), false, nil, false)
		s.Body.List = append([]ast.Stmt{r.yieldStmt(id)}, r.block(s.Body.List)...)
	case *ast.RangeStmt:
		id := r.newSite("loop", s.Pos(), false, nil, false)
		s.Body.List = append([]ast.Stmt{r.yieldStmt(id)}, r.block(s.Body.List)...)
		if repl := r.rangeOverMap(s); repl != nil {
			return append(pre, repl)
		}
		if t := r.info().TypeOf(s.X); t != nil {
			if _, isChan := t.Underlying().(*types.Chan); isChan {
				return append(pre, r.rangeOverChan(s))
			}
		}
	case *ast.SwitchStmt:
		for _, c := range s.Body.List {
			cc := c.(*ast.CaseClause)
			cc.Body = r.block(cc.Body)
		}
	case *ast.TypeSwitchStmt:
		for _, c := range s.Body.List {
			cc := c.(*ast.CaseClause)
			cc.Body = r.block(cc.Body)
		}
	case *ast.SelectStmt:
		return append(pre, r.selectStmt(s))
	case *ast.SendStmt:
		stats["T8"]++
		r.needImp = true
		return append(pre, &ast.ExprStmt{X: &ast.CallExpr{Fun: &ast.SelectorExpr{X: s.Chan, Sel: ast.NewIdent("Send")}, Args: []ast.Expr{s.Value}}})
	case *ast.GoStmt:
		return append(pre, r.goStmt(s))
	}
	return append(pre, s)
}

// rangeOverMap implements T1.
func (r *rewriter) rangeOverMap(s *ast.RangeStmt) ast.Stmt {
	t := r.info().TypeOf(s.X)
	if t == nil {
		return nil
	}
	if _, ok := t.Underlying().(*types.Map); !ok {
		return nil
	}
	id := r.newSite("range", s.Pos(), false, nil, false)
	stats["T1"]++
	x := s.X
	var hoist ast.Stmt
	if !simpleOperand(x) {
		r.tmpN++
		tmp := ast.NewIdent(fmt.Sprintf("simrtMap%d", r.tmpN))
		hoist = &ast.AssignStmt{Lhs: []ast.Expr{tmp}, Tok: token.DEFINE, Rhs: []ast.Expr{x}}
		x = tmp
	}
	isBlank := func(e ast.Expr) bool {
		if e == nil {
			return true
		}
		id, ok := e.(*ast.Ident)
		return ok && id.Name == "_"
	}
	r.tmpN++
	kTmp := ast.NewIdent(fmt.Sprintf("simrtKey%d", r.tmpN))
	okTmp := ast.NewIdent(fmt.Sprintf("simrtOk%d", r.tmpN))
	var head []ast.Stmt
	keyExpr := ast.Expr(kTmp)
	if !isBlank(s.Key) {
		if s.Tok == token.DEFINE {
			head = append(head, &ast.AssignStmt{Lhs: []ast.Expr{s.Key}, Tok: token.DEFINE, Rhs: []ast.Expr{kTmp}})
			// avoid "declared and not used" when the body never reads the key
			head = append(head, &ast.AssignStmt{Lhs: []ast.Expr{ast.NewIdent("_")}, Tok: token.ASSIGN, Rhs: []ast.Expr{s.Key}})
		} else {
			head = append(head, &ast.AssignStmt{Lhs: []ast.Expr{s.Key}, Tok: token.ASSIGN, Rhs: []ast.Expr{kTmp}})
		}
	}
	lookup := &ast.IndexExpr{X: x, Index: keyExpr}
	if !isBlank(s.Value) {
		if s.Tok == token.DEFINE {
			head = append(head, &ast.AssignStmt{Lhs: []ast.Expr{s.Value, okTmp}, Tok: token.DEFINE, Rhs: []ast.Expr{lookup}})
			head = append(head, &ast.AssignStmt{Lhs: []ast.Expr{ast.NewIdent("_")}, Tok: token.ASSIGN, Rhs: []ast.Expr{s.Value}})
		} else {
			head = append(head, &ast.DeclStmt{Decl: &ast.GenDecl{Tok: token.VAR, Specs: []ast.Spec{&ast.ValueSpec{Names: []*ast.Ident{okTmp}, Type: ast.NewIdent("bool")}}}})
			head = append(head, &ast.AssignStmt{Lhs: []ast.Expr{s.Value, okTmp}, Tok: token.ASSIGN, Rhs: []ast.Expr{lookup}})
		}
	} else {
		head = append(head, &ast.AssignStmt{Lhs: []ast.Expr{ast.NewIdent("_"), okTmp}, Tok: token.DEFINE, Rhs: []ast.Expr{lookup}})
	}
	head = append(head, &ast.IfStmt{
		Cond: &ast.UnaryExpr{Op: token.NOT, X: okTmp},
		Body: &ast.BlockStmt{List: []ast.Stmt{&ast.BranchStmt{Tok: token.CONTINUE}}},
	})
	// the loop-head yield (first statement of the body) stays first
	// (the original body keeps its own scope: it may redeclare the range variables)
	body := append([]ast.Stmt{s.Body.List[0]}, head...)
	body = append(body, &ast.BlockStmt{List: s.Body.List[1:]})
	loop := &ast.RangeStmt{
		Key:   ast.NewIdent("_"),
		Value: kTmp,
		Tok:   token.DEFINE,
		X:     simrtCall("Keys", x, intLit(id)),
		Body:  &ast.BlockStmt{List: body},
	}
	if hoist != nil {
		return &ast.BlockStmt{List: []ast.Stmt{hoist, loop}}
	}
	return loop
}

// T8: goroutines, channels, select -------------------------------------------------

// rangeOverChan: for v := range ch { body }  ->  for { v, ok := ch.Recv2(); if !ok { break }; { body } }
func (r *rewriter) rangeOverChan(s *ast.RangeStmt) ast.Stmt {
	stats["T8"]++
	r.needImp = true
	r.tmpN++
	okTmp := ast.NewIdent(fmt.Sprintf("simrtOk%d", r.tmpN))
	var lhs ast.Expr = ast.NewIdent("_")
	tok := token.DEFINE
	if s.Key != nil {
		lhs = s.Key
		tok = s.Tok
	}
	recv := &ast.CallExpr{Fun: &ast.SelectorExpr{X: s.X, Sel: ast.NewIdent("Recv2")}}
	var head []ast.Stmt
	if tok == token.DEFINE {
		head = append(head, &ast.AssignStmt{Lhs: []ast.Expr{lhs, okTmp}, Tok: token.DEFINE, Rhs: []ast.Expr{recv}})
		if id, ok := lhs.(*ast.Ident); ok && id.Name != "_" {
			head = append(head, &ast.AssignStmt{Lhs: []ast.Expr{ast.NewIdent("_")}, Tok: token.ASSIGN, Rhs: []ast.Expr{lhs}})
		}
	} else {
		head = append(head, &ast.DeclStmt{Decl: &ast.GenDecl{Tok: token.VAR, Specs: []ast.Spec{&ast.ValueSpec{Names: []*ast.Ident{okTmp}, Type: ast.NewIdent("bool")}}}})
		head = append(head, &ast.AssignStmt{Lhs: []ast.Expr{lhs, okTmp}, Tok: token.ASSIGN, Rhs: []ast.Expr{recv}})
	}
	head = append(head, &ast.IfStmt{Cond: &ast.UnaryExpr{Op: token.NOT, X: okTmp}, Body: &ast.BlockStmt{List: []ast.Stmt{&ast.BranchStmt{Tok: token.BREAK}}}})
	body := append([]ast.Stmt{s.Body.List[0]}, head...)
	body = append(body, &ast.BlockStmt{List: s.Body.List[1:]})
	return &ast.ForStmt{Body: &ast.BlockStmt{List: body}}
}

// goStmt: go f(a, b)  ->  { g0 := f; g1 := a; g2 := b; simrt.Go(func() { g0(g1, g2) }) }
func (r *rewriter) goStmt(s *ast.GoStmt) ast.Stmt {
	stats["T8"]++
	r.needImp = true
	var pre []ast.Stmt
	call := s.Call
	hoist := func(e ast.Expr) ast.Expr {
		r.tmpN++
		tmp := ast.NewIdent(fmt.Sprintf("simrtGo%d", r.tmpN))
		pre = append(pre, &ast.AssignStmt{Lhs: []ast.Expr{tmp}, Tok: token.DEFINE, Rhs: []ast.Expr{e}})
		return tmp
	}
	fun := call.Fun
	switch fun.(type) {
	case *ast.FuncLit, *ast.Ident:
	default:
		fun = hoist(fun)
	}
	args := make([]ast.Expr, len(call.Args))
	for i, a := range call.Args {
		args[i] = hoist(a)
	}
	inner := &ast.CallExpr{Fun: fun, Args: args, Ellipsis: call.Ellipsis}
	if _, isLit := fun.(*ast.FuncLit); isLit {
		inner.Fun = &ast.ParenExpr{X: fun}
	}
	lit := &ast.FuncLit{Type: &ast.FuncType{Params: &ast.FieldList{}}, Body: &ast.BlockStmt{List: []ast.Stmt{&ast.ExprStmt{X: inner}}}}
	pre = append(pre, &ast.ExprStmt{X: simrtCall("Go", lit)})
	return &ast.BlockStmt{List: pre}
}

// selectStmt: select { case v := <-a: A; case b <- x: B; default: D }  ->
//
//	{ c0 := a; c1 := b; v1 := x; switch simrt.Select(true, simrt.RecvCase(c0), simrt.SendCase(c1, v1)) { case 0: v := c0.Selected(); A ... default: D } }
func (r *rewriter) selectStmt(s *ast.SelectStmt) ast.Stmt {
	stats["T8"]++
	r.needImp = true
	var pre []ast.Stmt
	tmp := func(prefix string, e ast.Expr) *ast.Ident {
		r.tmpN++
		id := ast.NewIdent(fmt.Sprintf("simrt%s%d", prefix, r.tmpN))
		pre = append(pre, &ast.AssignStmt{Lhs: []ast.Expr{id}, Tok: token.DEFINE, Rhs: []ast.Expr{e}})
		return id
	}
	hasDefault := false
	var cases []ast.Expr
	var clauses []ast.Stmt
	idx := 0
	for _, c := range s.Body.List {
		cc := c.(*ast.CommClause)
		body := r.block(cc.Body)
		if cc.Comm == nil {
			hasDefault = true
			clauses = append(clauses, &ast.CaseClause{List: nil, Body: body})
			continue
		}
		var bind ast.Stmt
		switch comm := cc.Comm.(type) {
		case *ast.SendStmt:
			ch := tmp("Ch", comm.Chan)
			v := tmp("Val", comm.Value)
			cases = append(cases, simrtCall("SendCase", ch, v))
		case *ast.ExprStmt:
			u, ok := unparen(comm.X).(*ast.UnaryExpr)
			if !ok || u.Op != token.ARROW {
				refuse(comm.Pos(), "unsupported select case")
				continue
			}
			ch := tmp("Ch", u.X)
			cases = append(cases, simrtCall("RecvCase", ch))
		case *ast.AssignStmt:
			u, ok := unparen(comm.Rhs[0]).(*ast.UnaryExpr)
			if !ok || u.Op != token.ARROW {
				refuse(comm.Pos(), "unsupported select case")
				continue
			}
			ch := tmp("Ch", u.X)
			cases = append(cases, simrtCall("RecvCase", ch))
			sel := "Selected"
			if len(comm.Lhs) == 2 {
				sel = "Selected2"
			}
			bind = &ast.AssignStmt{Lhs: comm.Lhs, Tok: comm.Tok, Rhs: []ast.Expr{&ast.CallExpr{Fun: &ast.SelectorExpr{X: ch, Sel: ast.NewIdent(sel)}}}}
		}
		if bind != nil {
			body = append([]ast.Stmt{bind}, body...)
			if as, ok := bind.(*ast.AssignStmt); ok && as.Tok == token.DEFINE {
				// avoid "declared and not used"
				for _, l := range as.Lhs {
					if id, ok := l.(*ast.Ident); ok && id.Name != "_" {
						body = append(body[:1:1], append([]ast.Stmt{&ast.AssignStmt{Lhs: []ast.Expr{ast.NewIdent("_")}, Tok: token.ASSIGN, Rhs: []ast.Expr{id}}}, body[1:]...)...)
					}
				}
			}
		}
		clauses = append(clauses, &ast.CaseClause{List: []ast.Expr{intLit(idx)}, Body: body})
		idx++
	}
	def := ast.NewIdent("false")
	if hasDefault {
		def = ast.NewIdent("true")
	}
	sw := &ast.SwitchStmt{Tag: simrtCall("Select", append([]ast.Expr{def}, cases...)...), Body: &ast.BlockStmt{List: clauses}}
	return &ast.BlockStmt{List: append(pre, sw)}
}

func unparen(e ast.Expr) ast.Expr {
	for {
		p, ok := e.(*ast.ParenExpr)
		if !ok {
			return e
		}
		e = p.X
	}
}

func simpleOperand(e ast.Expr) bool {
	switch x := e.(type) {
	case *ast.Ident:
		return true
	case *ast.SelectorExpr:
		return simpleOperand(x.X)
	case *ast.ParenExpr:
		return simpleOperand(x.X)
	case *ast.StarExpr:
		return simpleOperand(x.X)
	}
	return false
}

func (r *rewriter) isHeapWrite(s ast.Stmt) bool {
	lhsHeap := func(e ast.Expr) bool {
		for {
			if p, ok := e.(*ast.ParenExpr); ok {
				e = p.X
				continue
			}
			break
		}
		switch e.(type) {
		case *ast.SelectorExpr, *ast.IndexExpr, *ast.StarExpr:
			return true
		}
		return false
	}
	switch s := s.(type) {
	case *ast.AssignStmt:
		for _, l := range s.Lhs {
			if lhsHeap(l) {
				return true
			}
		}
	case *ast.IncDecStmt:
		return lhsHeap(s.X)
	case *ast.ExprStmt:
		if c, ok := s.X.(*ast.CallExpr); ok {
			if id, ok := c.Fun.(*ast.Ident); ok && (id.Name == "delete" || id.Name == "clear" || id.Name == "copy") {
				if _, isBuiltin := r.info().Uses[id].(*types.Builtin); isBuiltin {
					return true
				}
			}
		}
	}
	return false
}

// usesAtomic reports whether the statement header calls into sync/atomic (functions or
// methods of the atomic types).
func (r *rewriter) usesAtomic(hdr []ast.Node) bool {
	found := false
	for _, h := range hdr {
		ast.Inspect(h, func(n ast.Node) bool {
			if _, isLit := n.(*ast.FuncLit); isLit {
				return false
			}
			call, ok := n.(*ast.CallExpr)
			if !ok {
				return true
			}
			sel, ok := call.Fun.(*ast.SelectorExpr)
			if !ok {
				return true
			}
			if obj, ok := r.info().Uses[sel.Sel].(*types.Func); ok && obj.Pkg() != nil && obj.Pkg().Path() == "sync/atomic" {
				found = true
			}
			return true
		})
	}
	return found
}

// ---- access analysis (for the conflict detector and preemption bias) --------

type accCollector struct {
	r   *rewriter
	acc []access
	mut bool
}

func (c *accCollector) add(loc string, write bool) {
	for i, a := range c.acc {
		if a.Loc == loc {
			if write && !a.Write {
				c.acc[i].Write = true
			}
			return
		}
	}
	c.acc = append(c.acc, access{loc, write})
}

func isRefType(t types.Type) bool {
	if t == nil {
		return false
	}
	switch t.Underlying().(type) {
	case *types.Pointer, *types.Map, *types.Slice, *types.Chan, *types.Signature, *types.Interface:
		return true
	}
	return false
}

// chain resolves an expression that denotes a location rooted at a
// package-level variable. It records the pointer cells read on the way and
// returns the location path of the expression itself.
func (c *accCollector) chain(e ast.Expr) (string, bool) {
	info := c.r.info()
	switch x := e.(type) {
	case *ast.ParenExpr:
		return c.chain(x.X)
	case *ast.Ident:
		if v, ok := isModuleVar(info.Uses[x]); ok {
			if mutVars[v] {
				c.mut = true
			}
			return shortPkg(v.Pkg().Path()) + "." + v.Name(), true
		}
		return "", false
	case *ast.SelectorExpr:
		if id, ok := x.X.(*ast.Ident); ok {
			if _, isPkg := info.Uses[id].(*types.PkgName); isPkg {
				if v, ok := isModuleVar(info.Uses[x.Sel]); ok {
					if mutVars[v] {
						c.mut = true
					}
					return shortPkg(v.Pkg().Path()) + "." + v.Name(), true
				}
				return "", false
			}
		}
		sel := info.Selections[x]
		if sel == nil || sel.Kind() != types.FieldVal {
			return "", false
		}
		base, ok := c.chain(x.X)
		if !ok {
			return "", false
		}
		bt := info.TypeOf(x.X)
		if bt != nil {
			if _, isPtr := bt.Underlying().(*types.Pointer); isPtr {
				c.add(base, false) // the pointer cell is read
				return base + "->" + x.Sel.Name, true
			}
		}
		return base + "." + x.Sel.Name, true
	case *ast.StarExpr:
		base, ok := c.chain(x.X)
		if !ok {
			return "", false
		}
		c.add(base, false)
		return base + "->*", true
	case *ast.IndexExpr:
		base, ok := c.chain(x.X)
		if !ok {
			return "", false
		}
		c.expr(x.Index)
		bt := info.TypeOf(x.X)
		if bt != nil {
			if _, isArr := bt.Underlying().(*types.Array); isArr {
				return base + ".[]", true
			}
		}
		c.add(base, false)
		return base + "->[]", true
	}
	return "", false
}

// expr records the accesses made by evaluating e (as a value).
func (c *accCollector) expr(e ast.Expr) {
	if e == nil {
		return
	}
	if loc, ok := c.chain(e); ok {
		c.add(loc, false)
		return
	}
	switch x := e.(type) {
	case *ast.FuncLit:
		return
	case *ast.CallExpr:
		// len/cap/range-like reads of container contents
		if id, ok := x.Fun.(*ast.Ident); ok {
			if _, isB := c.r.info().Uses[id].(*types.Builtin); isB {
				switch id.Name {
				case "delete", "clear":
					if len(x.Args) > 0 {
						if loc, ok := c.chain(x.Args[0]); ok {
							c.add(loc, false)
							c.add(loc+"->[]", true)
							for _, a := range x.Args[1:] {
								c.expr(a)
							}
							return
						}
					}
				case "len", "cap":
					if len(x.Args) == 1 {
						if loc, ok := c.chain(x.Args[0]); ok {
							c.add(loc, false)
							if isRefType(c.r.info().TypeOf(x.Args[0])) {
								c.add(loc+"->[]", false)
							}
							return
						}
					}
				case "append":
					// append(x, ...) reads x's contents
					for _, a := range x.Args {
						c.expr(a)
					}
					return
				}
			}
		}
		// method call on a chain: the receiver is read (or its address taken)
		if sel, ok := x.Fun.(*ast.SelectorExpr); ok {
			if s := c.r.info().Selections[sel]; s != nil && s.Kind() == types.MethodVal {
				c.expr(sel.X)
				for _, a := range x.Args {
					c.expr(a)
				}
				return
			}
		}
		c.expr(x.Fun)
		for _, a := range x.Args {
			c.expr(a)
		}
		return
	case *ast.UnaryExpr:
		if x.Op == token.AND {
			// &loc: address taken; count as a read of the cells on the way
			if _, ok := c.chain(x.X); ok {
				return
			}
		}
		c.expr(x.X)
		return
	case *ast.SelectorExpr:
		c.expr(x.X)
		return
	case *ast.IndexExpr:
		c.expr(x.X)
		c.expr(x.Index)
		return
	}
	// generic traversal of children
	ast.Inspect(e, func(n ast.Node) bool {
		if n == e {
			return true
		}
		if sub, ok := n.(ast.Expr); ok {
			c.expr(sub)
			return false
		}
		return true
	})
}

func (c *accCollector) lvalue(e ast.Expr) {
	if loc, ok := c.chain(e); ok {
		c.add(loc, true)
		return
	}
	// not rooted at a package variable: sub-expressions are still evaluated
	switch x := e.(type) {
	case *ast.SelectorExpr:
		c.expr(x.X)
	case *ast.IndexExpr:
		c.expr(x.X)
		c.expr(x.Index)
	case *ast.StarExpr:
		c.expr(x.X)
	case *ast.ParenExpr:
		c.lvalue(x.X)
	}
}

func (c *accCollector) node(n ast.Node) {
	switch s := n.(type) {
	case ast.Expr:
		c.expr(s)
	case *ast.AssignStmt:
		for _, rhs := range s.Rhs {
			c.expr(rhs)
		}
		for _, l := range s.Lhs {
			if s.Tok != token.ASSIGN && s.Tok != token.DEFINE {
				c.expr(l) // op-assignment reads too
			}
			c.lvalue(l)
		}
	case *ast.IncDecStmt:
		c.expr(s.X)
		c.lvalue(s.X)
	case *ast.ExprStmt:
		c.expr(s.X)
	case *ast.ReturnStmt:
		for _, e := range s.Results {
			c.expr(e)
		}
	case *ast.DeferStmt:
		c.expr(s.Call)
	case *ast.GoStmt:
		c.expr(s.Call)
	case *ast.SendStmt:
		c.expr(s.Chan)
		c.expr(s.Value)
	case *ast.DeclStmt:
		if gd, ok := s.Decl.(*ast.GenDecl); ok {
			for _, sp := range gd.Specs {
				if vs, ok := sp.(*ast.ValueSpec); ok {
					for _, v := range vs.Values {
						c.expr(v)
					}
				}
			}
		}
	}
}

func (r *rewriter) accesses(s ast.Stmt, hdr []ast.Node) ([]access, bool) {
	c := &accCollector{r: r}
	for _, n := range hdr {
		c.node(n)
	}
	if rs, ok := s.(*ast.RangeStmt); ok {
		if loc, ok := (&accCollector{r: r}).chain(rs.X); ok && isRefType(r.info().TypeOf(rs.X)) {
			c.add(loc+"->[]", false)
		}
	}
	return c.acc, c.mut
}

// ---- expression rewrites -------------------------------------------------------

func (r *rewriter) pkgOf(id *ast.Ident) string {
	if pn, ok := r.info().Uses[id].(*types.PkgName); ok {
		return pn.Imported().Path()
	}
	return ""
}

func (r *rewriter) rewriteExprs() {
	info := r.info()
	isChan := func(e ast.Expr) bool {
		t := info.TypeOf(e)
		if t == nil {
			return false
		}
		_, ok := t.Underlying().(*types.Chan)
		return ok
	}
	astutil.Apply(r.file, func(c *astutil.Cursor) bool {
		switch n := c.Node().(type) {
		case *ast.UnaryExpr:
			if n.Op == token.ARROW {
				// <-ch  ->  ch.Recv()   /   v, ok := <-ch  ->  ch.Recv2()
				method := "Recv"
				if as, ok := c.Parent().(*ast.AssignStmt); ok && len(as.Lhs) == 2 && len(as.Rhs) == 1 {
					method = "Recv2"
				}
				if vs, ok := c.Parent().(*ast.ValueSpec); ok && len(vs.Names) == 2 && len(vs.Values) == 1 {
					method = "Recv2"
				}
				c.Replace(&ast.CallExpr{Fun: &ast.SelectorExpr{X: n.X, Sel: ast.NewIdent(method)}})
				stats["T8"]++
				r.needImp = true
				return true
			}
		case *ast.CallExpr:
			if id, ok := n.Fun.(*ast.Ident); ok {
				if _, isB := info.Uses[id].(*types.Builtin); isB {
					switch id.Name {
					case "make":
						if ct, ok := n.Args[0].(*ast.ChanType); ok {
							size := ast.Expr(intLit(0))
							if len(n.Args) > 1 {
								size = n.Args[1]
							}
							c.Replace(&ast.CallExpr{Fun: &ast.IndexExpr{X: &ast.SelectorExpr{X: ast.NewIdent("simrt"), Sel: ast.NewIdent("NewChan")}, Index: ct.Value}, Args: []ast.Expr{size}})
							stats["T8"]++
							r.needImp = true
							return true
						}
					case "close":
						if len(n.Args) == 1 && isChan(n.Args[0]) {
							c.Replace(&ast.CallExpr{Fun: &ast.SelectorExpr{X: n.Args[0], Sel: ast.NewIdent("Close")}})
							return true
						}
					case "len", "cap":
						if len(n.Args) == 1 && isChan(n.Args[0]) {
							m := map[string]string{"len": "Len", "cap": "Cap"}[id.Name]
							c.Replace(&ast.CallExpr{Fun: &ast.SelectorExpr{X: n.Args[0], Sel: ast.NewIdent(m)}})
							return true
						}
					}
				}
			}
			// T2: v.MapKeys()
			if sel, ok := n.Fun.(*ast.SelectorExpr); ok {
				if s := info.Selections[sel]; s != nil && s.Kind() == types.MethodVal {
					if fn, ok := s.Obj().(*types.Func); ok && fn.Pkg() != nil && fn.Pkg().Path() == "reflect" {
						switch fn.Name() {
						case "MapKeys":
							r.fn = "file"
							id := r.newSite("mapkeys", n.Pos(), false, nil, false)
							c.Replace(simrtCall("PermuteValues", n, intLit(id)))
							stats["T2"]++
							return false
						case "MapRange":
							refuse(n.Pos(), "reflect MapRange has no seam")
						}
					}
				}
			}
		case *ast.SelectorExpr:
			id, ok := n.X.(*ast.Ident)
			if !ok {
				return true
			}
			path := r.pkgOf(id)
			if path == "" || strings.HasPrefix(path, modPath) {
				return true
			}
			obj := info.Uses[n.Sel]
			switch path {
			case "sync":
				if tn, ok := obj.(*types.TypeName); ok {
					if repl, ok := syncTypes[tn.Name()]; ok {
						id.Name = "simrt"
						n.Sel.Name = repl
						r.needImp = true
						stats["T6"]++
					} else if tn.Name() != "Locker" {
						refuse(n.Pos(), "sync.%s has no seam", tn.Name())
					}
				} else if _, ok := obj.(*types.Func); ok {
					refuse(n.Pos(), "sync.%s has no seam", n.Sel.Name)
				}
				return true
			case "maps":
				if _, ok := obj.(*types.Func); ok {
					switch n.Sel.Name {
					case "Keys", "Values", "All":
						if call, ok := c.Parent().(*ast.CallExpr); ok && call.Fun == n {
							r.fn = "file"
							sid := r.newSite("mapkeys", n.Pos(), false, nil, false)
							id.Name = "simrt"
							n.Sel.Name = "Maps" + n.Sel.Name
							call.Args = append(call.Args, intLit(sid))
							stats["T2"]++
						} else {
							refuse(n.Pos(), "maps.%s used as a value", n.Sel.Name)
						}
					case "Clone", "Copy", "Equal", "EqualFunc", "DeleteFunc", "Insert", "Collect":
					default:
						refuse(n.Pos(), "maps.%s has no seam", n.Sel.Name)
					}
				}
				return true
			case "math/rand":
				if _, ok := obj.(*types.Func); ok {
					if randMethods[n.Sel.Name] {
						// rand.F -> simrt.Rand().F
						c.Replace(&ast.SelectorExpr{X: simrtCall("Rand"), Sel: n.Sel})
						r.needImp = true
						stats["T4"]++
						return false
					}
					if !allowedFuncs[path][n.Sel.Name] {
						refuse(n.Pos(), "math/rand.%s has no seam", n.Sel.Name)
					}
				}
				return true
			}
			if tn, isType := obj.(*types.TypeName); isType && path == "os" && tn.Name() == "File" {
				id.Name = "simrt"
				r.needImp = true
				return true
			}
			if _, isFunc := obj.(*types.Func); !isFunc {
				return true // types, constants, error variables
			}
			if m, ok := shimFuncs[path]; ok {
				if repl, ok := m[n.Sel.Name]; ok {
					id.Name = "simrt"
					n.Sel.Name = repl
					r.needImp = true
					if path == "time" {
						stats["T4"]++
					} else {
						stats["T3"]++
					}
					return true
				}
			}
			if pureStd[path] {
				return true
			}
			if allowedFuncs[path][n.Sel.Name] {
				return true
			}
			if path == "reflect" {
				return true
			}
			refuse(n.Pos(), "%s.%s has no seam", path, n.Sel.Name)
		}
		return true
	}, func(c *astutil.Cursor) bool {
		// post-order, so that nested channel types are rewritten inside out
		if ct, ok := c.Node().(*ast.ChanType); ok {
			c.Replace(&ast.StarExpr{X: &ast.IndexExpr{X: &ast.SelectorExpr{X: ast.NewIdent("simrt"), Sel: ast.NewIdent("Chan")}, Index: ct.Value}})
			stats["T8"]++
			r.needImp = true
		}
		return true
	})
}

func isSimrtCall(c *ast.CallExpr, name string) bool {
	sel, ok := c.Fun.(*ast.SelectorExpr)
	if !ok {
		return false
	}
	id, ok := sel.X.(*ast.Ident)
	return ok && id.Name == "simrt" && sel.Sel.Name == name
}

// pruneImports removes imports whose every use was redirected.
func (r *rewriter) pruneImports() {
	used := map[string]bool{}
	ast.Inspect(r.file, func(n ast.Node) bool {
		if sel, ok := n.(*ast.SelectorExpr); ok {
			if id, ok := sel.X.(*ast.Ident); ok {
				used[id.Name] = true
			}
		}
		return true
	})
	var drop [][2]string
	for _, imp := range r.file.Imports {
		path, _ := strconv.Unquote(imp.Path.Value)
		name := ""
		if imp.Name != nil {
			name = imp.Name.Name
		}
		if name == "_" || name == "." || path == simrtPath {
			continue
		}
		local := name
		if local == "" {
			// the package's declared name
			for _, ip := range r.pkg.Imports {
				if ip.PkgPath == path {
					local = ip.Name
				}
			}
			if local == "" {
				local = filepath.Base(path)
			}
		}
		if !used[local] {
			drop = append(drop, [2]string{name, path})
		}
	}
	// (deleting while ranging over file.Imports would skip entries)
	for _, d := range drop {
		if d[0] != "" {
			astutil.DeleteNamedImport(fset, r.file, d[0], d[1])
		} else {
			astutil.DeleteImport(fset, r.file, d[1])
		}
	}
}

// ---- T7: reset of package-level variables -----------------------------------

func (r *rewriter) resetSnippets() []string {
	info := r.info()
	initIdx := map[*types.Var]int{}
	for i, in := range info.InitOrder {
		for _, v := range in.Lhs {
			initIdx[v] = i + 1
		}
	}
	var out []string
	pr := func(n ast.Node) string {
		var b bytes.Buffer
		printer.Fprint(&b, fset, n)
		return b.String()
	}
	for _, d := range r.file.Decls {
		gd, ok := d.(*ast.GenDecl)
		if !ok || gd.Tok != token.VAR {
			continue
		}
		embed := func(cg *ast.CommentGroup) bool {
			if cg == nil {
				return false
			}
			for _, c := range cg.List {
				if strings.HasPrefix(c.Text, "//go:embed") {
					return true
				}
			}
			return false
		}
		if embed(gd.Doc) {
			continue
		}
		for _, sp := range gd.Specs {
			vs := sp.(*ast.ValueSpec)
			if embed(vs.Doc) {
				continue
			}
			var names []string
			allBlank := true
			idx := 0
			for _, n := range vs.Names {
				names = append(names, n.Name)
				if n.Name != "_" {
					allBlank = false
					if v, ok := info.Defs[n].(*types.Var); ok {
						if i := initIdx[v]; i > idx {
							idx = i
						}
					}
				}
			}
			if allBlank {
				continue
			}
			ord := r.order*100000 + idx
			if len(vs.Values) == 0 {
				// zero value
				for _, n := range vs.Names {
					if n.Name == "_" {
						continue
					}
					out = append(out, fmt.Sprintf("\tsimrt.RegisterReset(%q, %d, func() { %s = *new(%s) })\n",
						r.pkg.PkgPath, r.order*100000, n.Name, pr(vs.Type)))
				}
				continue
			}
			if len(vs.Values) == len(vs.Names) {
				for i, n := range vs.Names {
					if n.Name == "_" {
						continue
					}
					o := ord
					if v, ok := info.Defs[n].(*types.Var); ok {
						o = r.order*100000 + initIdx[v]
					}
					rhs := pr(vs.Values[i])
					if vs.Type != nil {
						rhs = "(" + pr(vs.Type) + ")(" + rhs + ")"
						if _, isIface := info.TypeOf(vs.Type).Underlying().(*types.Interface); isIface {
							rhs = pr(vs.Values[i])
						}
					}
					out = append(out, fmt.Sprintf("\tsimrt.RegisterReset(%q, %d, func() { %s = %s })\n",
						r.pkg.PkgPath, o, n.Name, rhs))
				}
				continue
			}
			out = append(out, fmt.Sprintf("\tsimrt.RegisterReset(%q, %d, func() { %s = %s })\n",
				r.pkg.PkgPath, ord, strings.Join(names, ", "), pr(vs.Values[0])))
		}
	}
	stats["T7"] += len(out)
	return out
}
