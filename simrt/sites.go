// Package simrt is the runtime half of the deterministic simulator. It is
// copied into the scratch copy of textwire as package
// github.com/textwire/textwire/v2/simrt and is imported both by the rewritten
// textwire sources (through the calls inserted by cmd/twinstr) and by the
// harness in /verif/sim. With nothing installed every entry point is a
// pass-through to the real runtime / os, so the instrumented tree behaves like
// the original one.
package simrt

// Access is one memory location a statement may touch, computed statically by
// the instrumenter for statements that mention package-level variables.
// Loc is a path: "pkg.var", then ".field" for a field stored in place and
// "->field" / "->[]" for something reached through a pointer, map or slice.
type Access struct {
	Loc   string
	Write bool
}

// Site is one instrumented program point.
type Site struct {
	ID     int
	Name   string // pkg.Func#kind#ordinal  (stable under unrelated edits)
	Kind   string // entry | loop | pkgvar | heapw | range | mapkeys
	Pos    string // file:line in the original source
	Shared bool   // pkgvar or heapw: statement that may touch shared memory
	Mut    bool   // pkgvar site mentioning a variable that is written somewhere in the module
	Acc    []Access
}

// Sites is filled by the generated file sites_gen.go.
var Sites []Site

// SiteName returns a printable name for a site id (negative ids are internal).
func SiteName(id int) string {
	switch {
	case id >= 0 && id < len(Sites):
		return Sites[id].Name
	case id == SiteFS:
		return "simrt#fs"
	case id == SiteLock:
		return "simrt#lock"
	case id == SiteUser:
		return "harness#callback"
	case id == SiteSyncMap:
		return "simrt#syncmap-range"
	}
	return "simrt#?"
}

const (
	SiteFS   = -2
	SiteLock = -3
	SiteUser = -4
)

type resetEntry struct {
	pkg   string
	order int
	fn    func()
}

var resets []resetEntry

// RegisterReset is called from the generated zz_simreset_gen.go of every
// instrumented package. order is the package's position in a topological order
// of the import graph (dependencies first).
func RegisterReset(pkg string, order int, fn func()) {
	resets = append(resets, resetEntry{pkg, order, fn})
	for i := len(resets) - 1; i > 0 && resets[i].order < resets[i-1].order; i-- {
		resets[i], resets[i-1] = resets[i-1], resets[i]
	}
}

// ResetAll re-evaluates the initialisers of every package-level variable of
// the instrumented module, in initialisation order: the state a fresh process
// would start with.
func ResetAll() {
	for _, r := range resets {
		r.fn()
	}
}

// ResetPackages lists the packages that registered a reset function.
func ResetPackages() []string {
	var out []string
	for _, r := range resets {
		out = append(out, r.pkg)
	}
	return out
}
