//go:build go1.23

package simrt

import "iter"

// MapsKeys, MapsValues and MapsAll replace maps.Keys / maps.Values / maps.All.
func MapsKeys[M ~map[K]V, K comparable, V any](m M, site int) iter.Seq[K] {
	return func(yield func(K) bool) {
		for _, k := range Keys(m, site) {
			if _, ok := m[k]; !ok {
				continue
			}
			if !yield(k) {
				return
			}
		}
	}
}

func MapsValues[M ~map[K]V, K comparable, V any](m M, site int) iter.Seq[V] {
	return func(yield func(V) bool) {
		for _, k := range Keys(m, site) {
			v, ok := m[k]
			if !ok {
				continue
			}
			if !yield(v) {
				return
			}
		}
	}
}

func MapsAll[M ~map[K]V, K comparable, V any](m M, site int) iter.Seq2[K, V] {
	return func(yield func(K, V) bool) {
		for _, k := range Keys(m, site) {
			v, ok := m[k]
			if !ok {
				continue
			}
			if !yield(k, v) {
				return
			}
		}
	}
}
