package simrt

import (
	"io"
	"io/fs"
	"os"
	"path/filepath"
	"sort"
	"strings"
	"syscall"
	"time"
)

// FS is the file-system seam. With CurFS == nil every shim delegates to the
// real os / filepath functions.
type FS interface {
	ReadFile(name string) ([]byte, error)
	Lstat(name string) (fs.FileInfo, error)
	Stat(name string) (fs.FileInfo, error)
	ReadDirNames(name string) ([]string, error)
	Getwd() (string, error)
}

var CurFS FS

// SetFS installs (or with nil removes) the simulated disk.
func SetFS(f FS) { CurFS = f }

func ReadFile(name string) ([]byte, error) {
	if CurFS == nil {
		return os.ReadFile(name)
	}
	Yield(SiteFS)
	return CurFS.ReadFile(name)
}

func Stat(name string) (fs.FileInfo, error) {
	if CurFS == nil {
		return os.Stat(name)
	}
	Yield(SiteFS)
	return CurFS.Stat(name)
}

func Lstat(name string) (fs.FileInfo, error) {
	if CurFS == nil {
		return os.Lstat(name)
	}
	Yield(SiteFS)
	return CurFS.Lstat(name)
}

func Getwd() (string, error) {
	if CurFS == nil {
		return os.Getwd()
	}
	return CurFS.Getwd()
}

type dirEntry struct{ fi fs.FileInfo }

func (d dirEntry) Name() string               { return d.fi.Name() }
func (d dirEntry) IsDir() bool                { return d.fi.IsDir() }
func (d dirEntry) Type() fs.FileMode          { return d.fi.Mode().Type() }
func (d dirEntry) Info() (fs.FileInfo, error) { return d.fi, nil }

func ReadDir(name string) ([]fs.DirEntry, error) {
	if CurFS == nil {
		return os.ReadDir(name)
	}
	Yield(SiteFS)
	names, err := CurFS.ReadDirNames(name)
	if err != nil {
		return nil, err
	}
	var out []fs.DirEntry
	for _, n := range names {
		fi, err := CurFS.Lstat(filepath.Join(name, n))
		if err != nil {
			continue
		}
		out = append(out, dirEntry{fi})
	}
	return out, nil
}

// Abs mirrors filepath.Abs over the simulated working directory.
func Abs(path string) (string, error) {
	if CurFS == nil {
		return filepath.Abs(path)
	}
	if filepath.IsAbs(path) {
		return filepath.Clean(path), nil
	}
	wd, err := CurFS.Getwd()
	if err != nil {
		return "", err
	}
	return filepath.Join(wd, path), nil
}

// Walk is a transliteration of path/filepath.Walk (go1.23) over the seam.
func Walk(root string, fn filepath.WalkFunc) error {
	if CurFS == nil {
		return filepath.Walk(root, fn)
	}
	info, err := Lstat(root)
	if err != nil {
		err = fn(root, nil, err)
	} else {
		err = walk(root, info, fn)
	}
	if err == filepath.SkipDir || err == filepath.SkipAll {
		return nil
	}
	return err
}

func walk(path string, info fs.FileInfo, walkFn filepath.WalkFunc) error {
	if !info.IsDir() {
		return walkFn(path, info, nil)
	}
	Yield(SiteFS)
	names, err := CurFS.ReadDirNames(path)
	err1 := walkFn(path, info, err)
	if err != nil || err1 != nil {
		return err1
	}
	for _, name := range names {
		filename := filepath.Join(path, name)
		fileInfo, err := Lstat(filename)
		if err != nil {
			if err := walkFn(filename, fileInfo, err); err != nil && err != filepath.SkipDir {
				return err
			}
		} else {
			err = walk(filename, fileInfo, walkFn)
			if err != nil {
				if !fileInfo.IsDir() || err != filepath.SkipDir {
					return err
				}
			}
		}
	}
	return nil
}

// WalkDir is implemented on top of Walk's traversal (same order, same errors
// for the cases the simulated disk can produce).
func WalkDir(root string, fn fs.WalkDirFunc) error {
	if CurFS == nil {
		return filepath.WalkDir(root, fn)
	}
	return Walk(root, func(path string, info fs.FileInfo, err error) error {
		if info == nil {
			return fn(path, nil, err)
		}
		return fn(path, dirEntry{info}, err)
	})
}

// ---- in-memory disk ---------------------------------------------------------

type NodeKind int

const (
	FileNode NodeKind = iota
	DirNode
	LinkNode
)

// Node is a file, directory or symbolic link of the simulated disk.
type Node struct {
	Kind    NodeKind
	Data    []byte
	Target  string
	Kids    map[string]*Node
	OpenErr syscall.Errno // opening the node (read or list) fails with this
	ReadErr syscall.Errno // reading fails with this (after Short bytes if Short >= 0)
	Short   int           // >= 0: a read returns only the first Short bytes, without error (torn read)
}

func NewDir() *Node             { return &Node{Kind: DirNode, Kids: map[string]*Node{}, Short: -1} }
func NewFile(data string) *Node { return &Node{Kind: FileNode, Data: []byte(data), Short: -1} }
func NewLink(target string) *Node {
	return &Node{Kind: LinkNode, Target: target, Short: -1}
}

// MemFS is the simulated disk.
type MemFS struct {
	Root *Node
	Cwd  string
	// Ops counts the operations performed so far (ReadFile, Lstat, Stat, ReadDirNames).
	Ops int
	// FailOp makes the operation with that ordinal fail with the errno.
	FailOp map[int]syscall.Errno
	// Vanish removes the file at that (absolute, clean) path just before the first ReadFile of it.
	Vanish map[string]bool
	// NoFD: the process has run out of file descriptors. Every operation that needs a new one
	// (open, the open inside ReadFile / ReadDir) fails with EMFILE; stat and operations on
	// descriptors that are already open keep working.
	NoFD bool
	// Fired counts the faults that the code under test actually ran into.
	Fired map[string]int
	// Log of operations (capped).
	Log []string
}

func NewMemFS(cwd string) *MemFS {
	m := &MemFS{Root: NewDir(), Cwd: cwd, Fired: map[string]int{}}
	m.MkdirAll(cwd)
	return m
}

func (m *MemFS) fire(kind string) { m.Fired[kind]++ }

func (m *MemFS) logOp(op, path string) {
	if len(m.Log) < 512 {
		m.Log = append(m.Log, op+" "+path)
	}
}

func (m *MemFS) abs(p string) string {
	if !strings.HasPrefix(p, "/") {
		p = m.Cwd + "/" + p
	}
	return p
}

// walkPath resolves a path component by component (".." is physical, symbolic
// links are followed for all but, optionally, the last component).
func (m *MemFS) walkPath(p string, followLast bool, depth int) (*Node, []*Node, syscall.Errno) {
	if depth > 40 {
		return nil, nil, syscall.ELOOP
	}
	if p == "" {
		return nil, nil, syscall.ENOENT
	}
	p = m.abs(p)
	stack := []*Node{m.Root}
	parts := strings.Split(p, "/")
	for i, c := range parts {
		if c == "" || c == "." {
			continue
		}
		cur := stack[len(stack)-1]
		if cur.Kind != DirNode {
			return nil, nil, syscall.ENOTDIR
		}
		if c == ".." {
			if len(stack) > 1 {
				stack = stack[:len(stack)-1]
			}
			continue
		}
		kid, ok := cur.Kids[c]
		if !ok {
			return nil, nil, syscall.ENOENT
		}
		last := true
		for _, r := range parts[i+1:] {
			if r != "" && r != "." {
				last = false
			}
		}
		if kid.Kind == LinkNode && (!last || followLast) {
			// resolve the link relative to the directory that contains it
			dir := m.pathOf(stack)
			t := kid.Target
			if !strings.HasPrefix(t, "/") {
				t = dir + "/" + t
			}
			n, st, e := m.walkPath(t, true, depth+1)
			if e != 0 {
				return nil, nil, e
			}
			stack = append(append([]*Node{}, st...), n)
			continue
		}
		stack = append(stack, kid)
	}
	n := stack[len(stack)-1]
	return n, stack[:len(stack)-1], 0
}

// pathOf reconstructs the absolute path of the directory at the top of a stack.
func (m *MemFS) pathOf(stack []*Node) string {
	p := ""
	for i := 1; i < len(stack); i++ {
		parent := stack[i-1]
		for name, k := range parent.Kids {
			if k == stack[i] {
				p += "/" + name
				break
			}
		}
	}
	if p == "" {
		return "/"
	}
	return p
}

func (m *MemFS) MkdirAll(p string) *Node {
	cur := m.Root
	for _, c := range strings.Split(m.abs(p), "/") {
		if c == "" || c == "." {
			continue
		}
		k, ok := cur.Kids[c]
		if !ok || k.Kind != DirNode {
			k = NewDir()
			cur.Kids[c] = k
		}
		cur = k
	}
	return cur
}

// Put places node n at path p (creating parent directories).
func (m *MemFS) Put(p string, n *Node) {
	p = filepath.Clean(m.abs(p))
	dir := m.MkdirAll(filepath.Dir(p))
	dir.Kids[filepath.Base(p)] = n
}

// Remove deletes the entry at path p, if any.
func (m *MemFS) Remove(p string) {
	p = filepath.Clean(m.abs(p))
	n, _, e := m.walkPath(filepath.Dir(p), true, 0)
	if e == 0 && n.Kind == DirNode {
		delete(n.Kids, filepath.Base(p))
	}
}

// Get returns the node at p without following a final link.
func (m *MemFS) Get(p string) *Node {
	n, _, e := m.walkPath(p, false, 0)
	if e != 0 {
		return nil
	}
	return n
}

func (m *MemFS) op(op, name string) syscall.Errno {
	i := m.Ops
	m.Ops++
	m.logOp(op, name)
	if e, ok := m.FailOp[i]; ok {
		m.fire("op-" + errnoName(e))
		return e
	}
	return 0
}

func errnoName(e syscall.Errno) string {
	switch e {
	case syscall.EIO:
		return "EIO"
	case syscall.EACCES:
		return "EACCES"
	case syscall.EMFILE:
		return "EMFILE"
	case syscall.ENOENT:
		return "ENOENT"
	case syscall.ENOTDIR:
		return "ENOTDIR"
	case syscall.EISDIR:
		return "EISDIR"
	case syscall.ELOOP:
		return "ELOOP"
	}
	return e.Error()
}

func perr(op, path string, e syscall.Errno) error {
	return &fs.PathError{Op: op, Path: path, Err: e}
}

func (m *MemFS) ReadFile(name string) ([]byte, error) {
	if e := m.op("readfile", name); e != 0 {
		return nil, perr("open", name, e)
	}
	if m.NoFD {
		m.fire("no-descriptors-EMFILE")
		return nil, perr("open", name, syscall.EMFILE)
	}
	if len(m.Vanish) > 0 {
		c := filepath.Clean(m.abs(name))
		if m.Vanish[c] {
			delete(m.Vanish, c)
			m.Remove(c)
			m.fire("vanish")
		}
	}
	n, _, e := m.walkPath(name, true, 0)
	if e != 0 {
		m.fire("open-" + errnoName(e))
		return nil, perr("open", name, e)
	}
	if n.OpenErr != 0 {
		m.fire("open-" + errnoName(n.OpenErr))
		return nil, perr("open", name, n.OpenErr)
	}
	if n.Kind == DirNode {
		m.fire("read-EISDIR")
		return []byte{}, perr("read", name, syscall.EISDIR)
	}
	data := n.Data
	if n.Short >= 0 && n.Short < len(data) {
		data = data[:n.Short]
		if n.ReadErr == 0 {
			m.fire("short-read")
		}
	}
	out := append([]byte{}, data...)
	if n.ReadErr != 0 {
		m.fire("read-" + errnoName(n.ReadErr))
		return out, perr("read", name, n.ReadErr)
	}
	return out, nil
}

type fileInfo struct {
	name string
	size int64
	mode fs.FileMode
	node *Node
}

func (f fileInfo) Name() string      { return f.name }
func (f fileInfo) Size() int64       { return f.size }
func (f fileInfo) Mode() fs.FileMode { return f.mode }
func (f fileInfo) ModTime() time.Time {
	if MTimeSeed == 0 {
		return time.Unix(1700000000, 0).UTC()
	}
	// a seeded time per file (name and size decide): which file was saved last is an accident
	h := MTimeSeed
	for i := 0; i < len(f.name); i++ {
		h = (h ^ uint64(f.name[i])) * 1099511628211
	}
	h = (h ^ uint64(f.size)) * 1099511628211
	return time.Unix(1600000000+int64(h%100000000), int64(h>>40)%1000000000).UTC()
}

// MTimeSeed selects the modification times the simulated disk reports: 0 = every file the same
// instant; otherwise a seeded, different time per file.
var MTimeSeed uint64

func (f fileInfo) IsDir() bool { return f.mode.IsDir() }
func (f fileInfo) Sys() any    { return nil }

func infoOf(name string, n *Node) fs.FileInfo {
	fi := fileInfo{name: filepath.Base(name), node: n}
	switch n.Kind {
	case DirNode:
		fi.mode = fs.ModeDir | 0o755
		fi.size = 4096
	case LinkNode:
		fi.mode = fs.ModeSymlink | 0o777
		fi.size = int64(len(n.Target))
	default:
		fi.mode = 0o644
		fi.size = int64(len(n.Data))
	}
	return fi
}

func (m *MemFS) Lstat(name string) (fs.FileInfo, error) {
	if e := m.op("lstat", name); e != 0 {
		return nil, perr("lstat", name, e)
	}
	n, _, e := m.walkPath(name, false, 0)
	if e != 0 {
		m.fire("lstat-" + errnoName(e))
		return nil, perr("lstat", name, e)
	}
	return infoOf(name, n), nil
}

func (m *MemFS) Stat(name string) (fs.FileInfo, error) {
	if e := m.op("stat", name); e != 0 {
		return nil, perr("stat", name, e)
	}
	n, _, e := m.walkPath(name, true, 0)
	if e != 0 {
		m.fire("stat-" + errnoName(e))
		return nil, perr("stat", name, e)
	}
	return infoOf(name, n), nil
}

func (m *MemFS) ReadDirNames(name string) ([]string, error) {
	if e := m.op("readdir", name); e != 0 {
		return nil, perr("open", name, e)
	}
	if m.NoFD {
		m.fire("no-descriptors-EMFILE")
		return nil, perr("open", name, syscall.EMFILE)
	}
	n, _, e := m.walkPath(name, true, 0)
	if e != 0 {
		m.fire("open-" + errnoName(e))
		return nil, perr("open", name, e)
	}
	if n.OpenErr != 0 {
		m.fire("open-" + errnoName(n.OpenErr))
		return nil, perr("open", name, n.OpenErr)
	}
	if n.Kind != DirNode {
		return nil, perr("readdirent", name, syscall.ENOTDIR)
	}
	names := make([]string, 0, len(n.Kids))
	for k := range n.Kids {
		names = append(names, k)
	}
	sort.Strings(names)
	return names, nil
}

func (m *MemFS) Getwd() (string, error) { return m.Cwd, nil }

// ---- os.Open seam -------------------------------------------------------------

// File replaces *os.File for files obtained through os.Open (read-only use).
type File struct {
	real    *os.File
	fs      *MemFS
	name    string
	node    *Node
	data    []byte
	off     int
	dirRead bool
}

// Open replaces os.Open.
func Open(name string) (*File, error) {
	if CurFS == nil {
		f, err := os.Open(name)
		if err != nil {
			return nil, err
		}
		return &File{real: f, name: name}, nil
	}
	Yield(SiteFS)
	m, ok := CurFS.(*MemFS)
	if !ok {
		return nil, perr("open", name, syscall.ENOSYS)
	}
	return m.Open(name)
}

func (m *MemFS) Open(name string) (*File, error) {
	if e := m.op("open", name); e != 0 {
		return nil, perr("open", name, e)
	}
	if m.NoFD {
		m.fire("no-descriptors-EMFILE")
		return nil, perr("open", name, syscall.EMFILE)
	}
	if len(m.Vanish) > 0 {
		c := filepath.Clean(m.abs(name))
		if m.Vanish[c] {
			delete(m.Vanish, c)
			m.Remove(c)
			m.fire("vanish")
		}
	}
	n, _, e := m.walkPath(name, true, 0)
	if e != 0 {
		m.fire("open-" + errnoName(e))
		return nil, perr("open", name, e)
	}
	if n.OpenErr != 0 {
		m.fire("open-" + errnoName(n.OpenErr))
		return nil, perr("open", name, n.OpenErr)
	}
	f := &File{fs: m, name: name, node: n}
	if n.Kind == FileNode {
		f.data = n.Data
		if n.Short >= 0 && n.Short < len(f.data) {
			f.data = f.data[:n.Short]
			if n.ReadErr == 0 {
				m.fire("short-read")
			}
		}
	}
	return f, nil
}

func (f *File) Name() string { return f.name }

func (f *File) Read(p []byte) (int, error) {
	if f.real != nil {
		return f.real.Read(p)
	}
	Yield(SiteFS)
	if f.node.Kind == DirNode {
		f.fs.fire("read-EISDIR")
		return 0, perr("read", f.name, syscall.EISDIR)
	}
	if f.off >= len(f.data) {
		if f.node.ReadErr != 0 {
			f.fs.fire("read-" + errnoName(f.node.ReadErr))
			return 0, perr("read", f.name, f.node.ReadErr)
		}
		return 0, io.EOF
	}
	n := copy(p, f.data[f.off:])
	f.off += n
	return n, nil
}

// Seek sets the descriptor's one offset, which every user of the descriptor shares.
func (f *File) Seek(offset int64, whence int) (int64, error) {
	if f.real != nil {
		return f.real.Seek(offset, whence)
	}
	Yield(SiteFS)
	var base int64
	switch whence {
	case io.SeekStart:
	case io.SeekCurrent:
		base = int64(f.off)
	case io.SeekEnd:
		base = int64(len(f.data))
	default:
		return 0, perr("seek", f.name, syscall.EINVAL)
	}
	if base+offset < 0 {
		return 0, perr("seek", f.name, syscall.EINVAL)
	}
	f.off = int(base + offset)
	return base + offset, nil
}

// SameFile replaces os.SameFile: on the simulated disk two infos describe the same file iff
// they were produced for the same node.
func SameFile(a, b fs.FileInfo) bool {
	fa, oka := a.(fileInfo)
	fb, okb := b.(fileInfo)
	if oka && okb {
		return fa.node == fb.node
	}
	if oka || okb {
		return false
	}
	return os.SameFile(a, b)
}

func (f *File) Close() error {
	if f.real != nil {
		return f.real.Close()
	}
	return nil
}

func (f *File) Stat() (fs.FileInfo, error) {
	if f.real != nil {
		return f.real.Stat()
	}
	return infoOf(f.name, f.node), nil
}

func (f *File) Readdirnames(n int) ([]string, error) {
	if f.real != nil {
		return f.real.Readdirnames(n)
	}
	if f.node.Kind != DirNode {
		return nil, perr("readdirent", f.name, syscall.ENOTDIR)
	}
	if f.dirRead {
		if n > 0 {
			return nil, io.EOF
		}
		return nil, nil
	}
	f.dirRead = true
	names := make([]string, 0, len(f.node.Kids))
	for k := range f.node.Kids {
		names = append(names, k)
	}
	sort.Strings(names)
	return names, nil
}

func (f *File) ReadDir(n int) ([]fs.DirEntry, error) {
	if f.real != nil {
		return f.real.ReadDir(n)
	}
	names, err := f.Readdirnames(n)
	if err != nil {
		return nil, err
	}
	var out []fs.DirEntry
	for _, name := range names {
		out = append(out, dirEntry{infoOf(name, f.node.Kids[name])})
	}
	return out, nil
}

// ---- filepath.Glob seam ---------------------------------------------------------

// Glob replaces filepath.Glob: the standard algorithm (pattern syntax and errors of
// filepath.Match, directories expanded recursively, I/O errors ignored) over the simulated disk.
func Glob(pattern string) ([]string, error) {
	if CurFS == nil {
		return filepath.Glob(pattern)
	}
	Yield(SiteFS)
	return globDepth(pattern, 0)
}

func globHasMeta(path string) bool { return strings.ContainsAny(path, `*?[\`) }

func globDepth(pattern string, depth int) ([]string, error) {
	if depth > 10000 {
		return nil, filepath.ErrBadPattern
	}
	// the pattern must be well formed even if nothing is listed
	if _, err := filepath.Match(pattern, ""); err != nil {
		return nil, err
	}
	if !globHasMeta(pattern) {
		if _, err := Lstat(pattern); err != nil {
			return nil, nil
		}
		return []string{pattern}, nil
	}
	dir, file := filepath.Split(pattern)
	switch dir {
	case "":
		dir = "."
	case "/":
	default:
		dir = dir[:len(dir)-1] // chop off trailing separator
	}
	if !globHasMeta(dir) {
		return globIn(dir, file, nil)
	}
	if dir == pattern {
		return nil, filepath.ErrBadPattern
	}
	m, err := globDepth(dir, depth+1)
	if err != nil {
		return nil, err
	}
	var matches []string
	for _, d := range m {
		matches, err = globIn(d, file, matches)
		if err != nil {
			return nil, err
		}
	}
	return matches, nil
}

func globIn(dir, pattern string, matches []string) ([]string, error) {
	fi, err := Stat(dir)
	if err != nil || !fi.IsDir() {
		return matches, nil
	}
	ents, err := ReadDir(dir)
	if err != nil {
		return matches, nil
	}
	for _, e := range ents {
		ok, err := filepath.Match(pattern, e.Name())
		if err != nil {
			return matches, err
		}
		if ok {
			matches = append(matches, filepath.Join(dir, e.Name()))
		}
	}
	return matches, nil
}
