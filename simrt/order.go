package simrt

import (
	"fmt"
	"reflect"
	"sort"
)

// OrderMode says how the keys of one map iteration are ordered.
type OrderMode int

const (
	Native    OrderMode = iota // Go's own (randomised) order: the seam is open
	Canonical                  // sorted
	Reverse                    // sorted, reversed
	Rotate                     // sorted, rotated by Rot
	Random                     // sorted, then a permutation derived from (Seed, site, dynamic execution number)
)

func (m OrderMode) String() string {
	return [...]string{"native", "canonical", "reverse", "rotate", "random"}[m]
}

// OrderPolicy is the decision of the simulator for every map iteration of one
// execution. Every permutation it can produce is a legal Go iteration order.
type OrderPolicy struct {
	Default OrderMode
	PerSite map[int]OrderMode // overrides by site id
	Seed    uint64
	Rot     int
}

// OrderStat counts, per site, how many iterations over >= 2 keys happened.
type OrderStat struct {
	Execs    int64 // dynamic executions
	Multi    int64 // of those, with >= 2 keys
	MaxKeys  int
	Nonident int64 // executions where the applied order differed from canonical
}

var (
	order      *OrderPolicy
	orderStats map[int]*OrderStat
	orderExec  map[int]uint64
	// OrderHash is a running hash over (site, n, applied permutation) of the
	// current execution; two executions with the same hash saw the same orders.
	OrderHash uint64
)

// SetOrder installs (or with nil removes) the order policy and resets the
// per-execution counters.
func SetOrder(p *OrderPolicy) {
	order = p
	orderExec = map[int]uint64{}
	OrderHash = 1469598103934665603
}

// ResetOrderStats clears the cumulative statistics.
func ResetOrderStats() { orderStats = map[int]*OrderStat{} }

// OrderStats returns the cumulative statistics.
func OrderStats() map[int]*OrderStat { return orderStats }

func mix(h, v uint64) uint64 {
	h ^= v
	h *= 1099511628211
	return h
}

func splitmix(x *uint64) uint64 {
	*x += 0x9e3779b97f4a7c15
	z := *x
	z = (z ^ (z >> 30)) * 0xbf58476d1ce4e5b9
	z = (z ^ (z >> 27)) * 0x94d049bb133111eb
	return z ^ (z >> 31)
}

// perm computes the permutation of 0..n-1 that the policy prescribes for this
// dynamic execution of site.
func perm(site, n int) []int {
	idx := make([]int, n)
	for i := range idx {
		idx[i] = i
	}
	p := order
	mode := p.Default
	if m, ok := p.PerSite[site]; ok {
		mode = m
	}
	exec := orderExec[site]
	orderExec[site] = exec + 1
	switch mode {
	case Reverse:
		for i, j := 0, n-1; i < j; i, j = i+1, j-1 {
			idx[i], idx[j] = idx[j], idx[i]
		}
	case Rotate:
		if n > 0 {
			r := ((p.Rot % n) + n) % n
			out := make([]int, 0, n)
			out = append(out, idx[r:]...)
			out = append(out, idx[:r]...)
			idx = out
		}
	case Random:
		s := p.Seed ^ (uint64(site+7) * 0x9e3779b97f4a7c15) ^ (exec * 0xc2b2ae3d27d4eb4f)
		for i := n - 1; i > 0; i-- {
			j := int(splitmix(&s) % uint64(i+1))
			idx[i], idx[j] = idx[j], idx[i]
		}
	}
	st := orderStats[site]
	if st == nil {
		if orderStats == nil {
			orderStats = map[int]*OrderStat{}
		}
		st = &OrderStat{}
		orderStats[site] = st
	}
	st.Execs++
	if n >= 2 {
		st.Multi++
		for i, v := range idx {
			if i != v {
				st.Nonident++
				break
			}
		}
	}
	if n > st.MaxKeys {
		st.MaxKeys = n
	}
	OrderHash = mix(OrderHash, uint64(site)<<20|uint64(n))
	for _, v := range idx {
		OrderHash = mix(OrderHash, uint64(v))
	}
	return idx
}

func keyString(k any) (string, int64, uint64, float64, int) {
	switch v := k.(type) {
	case string:
		return v, 0, 0, 0, 0
	case int:
		return "", int64(v), 0, 0, 1
	case int64:
		return "", v, 0, 0, 1
	case int32:
		return "", int64(v), 0, 0, 1
	case int16:
		return "", int64(v), 0, 0, 1
	case int8:
		return "", int64(v), 0, 0, 1
	case uint:
		return "", 0, uint64(v), 0, 2
	case uint64:
		return "", 0, v, 0, 2
	case uint32:
		return "", 0, uint64(v), 0, 2
	case uint16:
		return "", 0, uint64(v), 0, 2
	case uint8:
		return "", 0, uint64(v), 0, 2
	case float64:
		return "", 0, 0, v, 3
	case float32:
		return "", 0, 0, float64(v), 3
	}
	rv := reflect.ValueOf(k)
	switch rv.Kind() {
	case reflect.String:
		return rv.String(), 0, 0, 0, 0
	case reflect.Int, reflect.Int8, reflect.Int16, reflect.Int32, reflect.Int64:
		return "", rv.Int(), 0, 0, 1
	case reflect.Uint, reflect.Uint8, reflect.Uint16, reflect.Uint32, reflect.Uint64, reflect.Uintptr:
		return "", 0, rv.Uint(), 0, 2
	}
	return fmt.Sprintf("%#v", k), 0, 0, 0, 0
}

type sortKey struct {
	s    string
	i    int64
	u    uint64
	f    float64
	kind int
	pos  int
}

func canonicalOrder(n int, at func(int) any) []int {
	ks := make([]sortKey, n)
	for i := 0; i < n; i++ {
		s, iv, u, f, kind := keyString(at(i))
		ks[i] = sortKey{s, iv, u, f, kind, i}
	}
	sort.SliceStable(ks, func(a, b int) bool {
		x, y := ks[a], ks[b]
		if x.kind != y.kind {
			return x.kind < y.kind
		}
		switch x.kind {
		case 1:
			return x.i < y.i
		case 2:
			return x.u < y.u
		case 3:
			return x.f < y.f
		}
		return x.s < y.s
	})
	out := make([]int, n)
	for i, k := range ks {
		out[i] = k.pos
	}
	return out
}

// Keys returns the keys of m in the order the simulator prescribes for this
// execution of the range statement at site. It replaces `range m`.
func Keys[M ~map[K]V, K comparable, V any](m M, site int) []K {
	keys := make([]K, 0, len(m))
	for k := range m {
		keys = append(keys, k)
	}
	if order == nil || order.Default == Native && len(order.PerSite) == 0 {
		return keys
	}
	if md, ok := order.PerSite[site]; (ok && md == Native) || (!ok && order.Default == Native) {
		return keys
	}
	canon := canonicalOrder(len(keys), func(i int) any { return keys[i] })
	p := perm(site, len(keys))
	out := make([]K, len(keys))
	for i, pi := range p {
		out[i] = keys[canon[pi]]
	}
	return out
}

// PermuteValues reorders the result of reflect.Value.MapKeys().
func PermuteValues(vals []reflect.Value, site int) []reflect.Value {
	if order == nil || order.Default == Native && len(order.PerSite) == 0 {
		return vals
	}
	if md, ok := order.PerSite[site]; (ok && md == Native) || (!ok && order.Default == Native) {
		return vals
	}
	canon := canonicalOrder(len(vals), func(i int) any {
		if vals[i].CanInterface() {
			return vals[i].Interface()
		}
		return vals[i].String()
	})
	p := perm(site, len(vals))
	out := make([]reflect.Value, len(vals))
	for i, pi := range p {
		out[i] = vals[canon[pi]]
	}
	return out
}
