package simrt

import (
	"fmt"
	"os"
	"runtime"
	"runtime/debug"
	"sort"
	"strings"
	"sync"
	"time"
)

// Preempt is one scheduling exception: when task Task reaches its local step
// Step, the processor is handed to task To (or, when To is not runnable, to the
// lowest-numbered runnable other task).
type Preempt struct {
	Task int   `json:"task"`
	Step int64 `json:"step"`
	To   int   `json:"to"`
}

// SharedHit is a shared site reached by a task, at a local step.
type SharedHit struct {
	Step int64
	Site int
}

// Task is one simulated caller goroutine.
type Task struct {
	ID               int
	Fn               func()
	Steps            int64
	Budget           int64
	Aborted          string // non-empty: the task was unwound by the simulator (step budget, deadlock)
	Panic            string // non-empty: the code under test panicked
	Stack            string
	Hits             []SharedHit // shared sites reached (capped)
	LeakedGoroutines int         // goroutines spawned by this call that were still blocked after it returned

	ring    [256]int32
	resume  chan struct{}
	started bool
	done    bool
	blocked any
	kill    string
	pre     []Preempt
	preIdx  int
	vc      []int64
}

type abortSentinel struct{ why string }

// cycle names the loop the task is spinning in: the distinct loop-head sites
// among its last 256 steps, sorted. Unlike the site at which the budget
// happened to run out, this does not depend on the budget's value.
func (t *Task) cycle() string {
	seen := map[string]bool{}
	for _, id := range t.ring {
		if id >= 0 && int(id) < len(Sites) && Sites[id].Kind == "loop" {
			seen[Sites[id].Name] = true
		}
	}
	if len(seen) == 0 {
		return "?"
	}
	names := make([]string, 0, len(seen))
	for n := range seen {
		names = append(names, n)
	}
	sort.Strings(names)
	return strings.Join(names, "+")
}

// Race is a pair of conflicting accesses by two tasks not ordered by any
// simulated synchronisation.
type Race struct {
	LocA, LocB     string
	SiteA, SiteB   int
	TaskA, TaskB   int
	WriteA, WriteB bool
}

func (r Race) String() string {
	k := func(w bool) string {
		if w {
			return "write"
		}
		return "read"
	}
	return fmt.Sprintf("%s of %s at %s (task %d) / %s of %s at %s (task %d)",
		k(r.WriteA), r.LocA, SiteName(r.SiteA), r.TaskA, k(r.WriteB), r.LocB, SiteName(r.SiteB), r.TaskB)
}

type accRec struct {
	loc   string
	write bool
	task  int
	clk   int64
	site  int
}

// Sched is one simulation: a set of tasks of which exactly one runs at a time.
type Sched struct {
	Tasks      []*Task
	GlobalStep int64
	Switches   int
	// EndChoice[i] selects, at the i-th task end (or block), which of the runnable
	// tasks continues (index into the ascending list; out of range = 0).
	EndChoice []int
	endIdx    int
	// Trace hash over (task, shared site) in execution order, and over switches.
	InterleaveHash uint64
	// Overlap is set when a task reached a shared site while another task had
	// started and not finished.
	Overlap     bool
	Races       []Race
	DetectRaces bool
	// Quantum > 0: round-robin time slicing. After every Quantum steps a task hands over to the
	// runnable task with the next higher id (wrapping around), so that many tasks advance in
	// lockstep — the schedule under which N callers are all inside an entry point at once. A task
	// also hands over just before every lock / channel operation, where a real thread is most
	// likely to lose the processor.
	Quantum  int64
	Deadlock bool
	// BudgetHit: some task of this simulation ran into its step ceiling (the reason, once).
	BudgetHit string
	Watchdog  bool

	// Leaked counts goroutines of the code under test that were still blocked when every
	// caller task had returned (they are unwound by the simulator).
	Leaked  int
	Spawned int

	cur       *Task
	mainWake  chan struct{}
	accs      []accRec
	raceSeen  map[string]bool
	solo      bool
	wg        sync.WaitGroup
	decisions uint64
	roots     int
}

// SchedPolicy steers the scheduling decisions that are not part of an explicit plan: which
// task continues when one ends or blocks, whether a freshly spawned goroutine runs before its
// parent continues, and (PreemptPct) random preemption at shared sites while goroutines
// spawned by the code under test are alive. Seed 0 is the canonical policy: parent first,
// lowest task id first, no preemption. Procs is what runtime.GOMAXPROCS(0)/NumCPU() report.
type SchedPolicy struct {
	Seed       uint64
	PreemptPct int
	Procs      int
}

var policy *SchedPolicy

// SetSchedPolicy installs (or with nil removes) the policy for subsequent simulations.
func SetSchedPolicy(p *SchedPolicy) { policy = p }

// decide draws a scheduling decision in [0, n).
func (s *Sched) decide(n int) int {
	if n <= 1 || policy == nil || policy.Seed == 0 {
		return 0
	}
	s.decisions++
	x := policy.Seed ^ (s.decisions * 0x9e3779b97f4a7c15)
	return int(splitmix(&x) % uint64(n))
}

// GOMAXPROCS and NumCPU replace the runtime functions: the simulator decides what the code sees.
func GOMAXPROCS(n int) int {
	if active == nil || policy == nil || policy.Procs <= 0 {
		return runtime.GOMAXPROCS(n)
	}
	return policy.Procs
}

func NumCPU() int {
	if active == nil || policy == nil || policy.Procs <= 0 {
		return runtime.NumCPU()
	}
	return policy.Procs
}

// Gosched is a plain scheduling point.
func Gosched() {
	if active == nil {
		runtime.Gosched()
		return
	}
	Yield(SiteLock)
}

var active *Sched

// Active reports whether a simulation is running.
func Active() bool { return active != nil }

// CurrentTask returns the id of the running task, or -1.
func CurrentTask() int {
	if s := active; s != nil && s.cur != nil {
		return s.cur.ID
	}
	return -1
}

// Steps returns the global step counter of the running simulation (0 if none).
func Steps() int64 {
	if s := active; s != nil {
		return s.GlobalStep
	}
	return 0
}

const maxHits = 1 << 14

// Yield is the scheduling point inserted by the instrumenter.
func Yield(id int) {
	s := active
	if s == nil {
		return
	}
	t := s.cur
	t.Steps++
	s.GlobalStep++
	t.ring[t.Steps&255] = int32(id)
	if t.Steps > t.Budget {
		why := "step budget exhausted at " + t.cycle()
		if s.BudgetHit == "" {
			// remembered on the simulation itself: the code under test may recover the panic below
			// (a worker pool that turns panics into errors), the verdict "this call did not finish
			// within its budget" must survive that
			s.BudgetHit = why
		}
		panic(abortSentinel{why})
	}
	if t.kill != "" {
		panic(abortSentinel{t.kill})
	}
	if s.solo {
		if len(s.Tasks) > 1 && policy != nil && policy.Seed != 0 && policy.PreemptPct > 0 && (id < 0 || Sites[id].Shared) {
			if r := s.runnable(t); len(r) > 0 && s.decide(100) < policy.PreemptPct {
				s.switchFrom(t, r[s.decide(len(r))].ID)
			}
		}
		return
	}
	shared := id >= 0 && Sites[id].Shared
	if (shared || id == SiteLock || id == SiteFS) && len(t.Hits) < maxHits {
		// lock operations, channel operations and simulated I/O are places where a real thread is
		// likely to be descheduled: candidates for preemption as well
		t.Hits = append(t.Hits, SharedHit{t.Steps, id})
	}
	if s.Quantum > 0 && (t.Steps%s.Quantum == 0 || id == SiteLock) {
		if r := s.runnable(t); len(r) > 0 {
			next := r[0].ID
			for _, c := range r {
				if c.ID > t.ID {
					next = c.ID
					break
				}
			}
			s.switchFrom(t, next)
		}
	}
	if t.preIdx < len(t.pre) && t.pre[t.preIdx].Step <= t.Steps {
		p := t.pre[t.preIdx]
		t.preIdx++
		if p.Step == t.Steps {
			s.switchFrom(t, p.To)
		}
	}
	if shared {
		s.InterleaveHash = mix(mix(s.InterleaveHash, uint64(t.ID)+1), uint64(id)+1)
		if !s.Overlap {
			for _, o := range s.Tasks {
				if o != t && o.started && !o.done {
					s.Overlap = true
					break
				}
			}
		}
		if s.DetectRaces {
			for _, a := range Sites[id].Acc {
				s.access(t, a.Loc, a.Write, id)
			}
		}
	}
}

// overlap: two location paths denote overlapping memory iff one is a prefix of
// the other and the remainder goes through in-place fields only (no "->").
func overlap(a, b string) bool {
	if len(a) > len(b) {
		a, b = b, a
	}
	if !strings.HasPrefix(b, a) {
		return false
	}
	rest := b[len(a):]
	if rest == "" {
		return true
	}
	if rest[0] != '.' && rest[0] != '-' {
		return false // "x.ab" vs "x.a"
	}
	return !strings.Contains(rest, "->")
}

func (s *Sched) access(t *Task, loc string, write bool, site int) {
	for _, r := range s.accs {
		if r.task == t.ID || !(write || r.write) || !overlap(r.loc, loc) {
			continue
		}
		// happens-before: r happened before the current point of t iff t's clock for r.task >= r.clk
		if r.task < len(t.vc) && t.vc[r.task] >= r.clk {
			continue
		}
		key := fmt.Sprintf("%s|%s|%d|%d", r.loc, loc, r.site, site)
		if s.raceSeen[key] {
			continue
		}
		s.raceSeen[key] = true
		s.Races = append(s.Races, Race{r.loc, loc, r.site, site, r.task, t.ID, r.write, write})
	}
	// remember (dedupe identical records of the same epoch)
	for _, r := range s.accs {
		if r.task == t.ID && r.loc == loc && r.write == write && r.clk == t.vc[t.ID] {
			return
		}
	}
	if len(s.accs) < 4096 {
		s.accs = append(s.accs, accRec{loc, write, t.ID, t.vc[t.ID], site})
	}
}

func (s *Sched) runnable(except *Task) []*Task {
	var out []*Task
	for _, t := range s.Tasks {
		if t != except && !t.done && t.blocked == nil {
			out = append(out, t)
		}
	}
	return out
}

func (s *Sched) wake(t *Task) {
	s.cur = t
	t.started = true
	t.resume <- struct{}{}
}

// switchFrom parks the current task and runs task `to` (or the first runnable other one).
func (s *Sched) switchFrom(t *Task, to int) {
	r := s.runnable(t)
	if len(r) == 0 {
		return
	}
	next := r[0]
	for _, c := range r {
		if c.ID == to {
			next = c
		}
	}
	s.Switches++
	s.InterleaveHash = mix(s.InterleaveHash, 0xabcdef^uint64(next.ID))
	s.wake(next)
	<-t.resume
	s.cur = t
}

// pickNext is called when the current task ends or blocks.
func (s *Sched) pickNext(from *Task) {
	r := s.runnable(from)
	if len(r) == 0 {
		// nobody can run
		var stuck []*Task
		for _, t := range s.Tasks {
			if !t.done && t != from {
				stuck = append(stuck, t)
			}
		}
		if from != nil && !from.done {
			stuck = append(stuck, from)
		}
		if len(stuck) == 0 {
			s.mainWake <- struct{}{}
			return
		}
		// deadlock (or, when every caller task has returned, leaked goroutines):
		// unwind the blocked tasks one by one
		rootsDone := true
		for _, t := range s.Tasks[:s.roots] {
			if !t.done {
				rootsDone = false
			}
		}
		if rootsDone {
			s.Leaked++
		} else {
			s.Deadlock = true
		}
		sort.Slice(stuck, func(i, j int) bool { return stuck[i].ID < stuck[j].ID })
		v := stuck[0]
		v.kill = "deadlock"
		v.blocked = nil
		if v == from {
			return // the caller checks kill after returning from block
		}
		s.wake(v)
		return
	}
	c := 0
	if s.endIdx < len(s.EndChoice) {
		c = s.EndChoice[s.endIdx]
	} else {
		c = s.decide(len(r))
	}
	s.endIdx++
	if c < 0 || c >= len(r) {
		c = 0
	}
	s.wake(r[c])
}

func normPanic(v any) string {
	s := fmt.Sprint(v)
	// strip addresses so that observations are comparable
	var b strings.Builder
	for i := 0; i < len(s); i++ {
		if s[i] == '0' && i+1 < len(s) && s[i+1] == 'x' {
			b.WriteString("0x?")
			i += 2
			for i < len(s) && strings.ContainsRune("0123456789abcdefABCDEF", rune(s[i])) {
				i++
			}
			i--
			continue
		}
		b.WriteByte(s[i])
	}
	return b.String()
}

func (t *Task) run() {
	defer func() {
		if r := recover(); r != nil {
			if a, ok := r.(abortSentinel); ok {
				t.Aborted = a.why
			} else {
				t.Panic = normPanic(r)
				t.Stack = panicSite(string(debug.Stack()))
				if t.Panic == "" {
					t.Panic = "panic"
				}
			}
		}
	}()
	t.Fn()
}

// panicSite extracts from a stack trace the innermost function of the
// instrumented module (not simrt itself) below the panic.
func panicSite(stack string) string {
	lines := strings.Split(stack, "\n")
	seenPanic := false
	for _, l := range lines {
		if strings.HasPrefix(l, "panic(") {
			seenPanic = true
			continue
		}
		if !seenPanic || strings.HasPrefix(l, "\t") {
			continue
		}
		if strings.Contains(l, "/simrt.") || !strings.Contains(l, "/v2") {
			continue
		}
		if i := strings.LastIndex(l, "("); i > 0 {
			l = l[:i]
		}
		if i := strings.Index(l, "/v2"); i >= 0 {
			l = l[i+3:]
		}
		return strings.TrimPrefix(l, "/")
	}
	return ""
}

// NewSched builds a simulation over the given task bodies.
func NewSched(fns []func(), budget int64, plan []Preempt) *Sched {
	s := &Sched{mainWake: make(chan struct{}, 1), raceSeen: map[string]bool{}, InterleaveHash: 1469598103934665603}
	for i, fn := range fns {
		t := &Task{ID: i, Fn: fn, Budget: budget, resume: make(chan struct{}, 1), vc: make([]int64, len(fns))}
		t.vc[i] = 1
		s.Tasks = append(s.Tasks, t)
	}
	for _, p := range plan {
		if p.Task >= 0 && p.Task < len(s.Tasks) {
			s.Tasks[p.Task].pre = append(s.Tasks[p.Task].pre, p)
		}
	}
	for _, t := range s.Tasks {
		sort.SliceStable(t.pre, func(i, j int) bool { return t.pre[i].Step < t.pre[j].Step })
	}
	s.roots = len(s.Tasks)
	return s
}

// Run executes the simulation to completion. first is the task that starts.
// It returns false if the wall-clock watchdog fired (harness trouble).
func (s *Sched) Run(first int) bool {
	if active != nil {
		panic("simrt: nested simulation")
	}
	if len(s.Tasks) == 0 {
		return true
	}
	active = s
	defer func() { active = nil }()
	for _, t := range s.Tasks {
		s.launch(t)
	}
	if first < 0 || first >= len(s.Tasks) {
		first = 0
	}
	s.wake(s.Tasks[first])
	select {
	case <-s.mainWake:
	case <-time.After(60 * time.Second):
		s.Watchdog = true
		dumpStacks()
		return false
	}
	s.wg.Wait()
	return true
}

func dumpStacks() {
	buf := make([]byte, 1<<20)
	n := runtime.Stack(buf, true)
	os.Stderr.WriteString("simrt: scheduler watchdog fired; goroutines:\n")
	os.Stderr.Write(buf[:n])
}

// launch starts the (parked) goroutine of a task.
func (s *Sched) launch(t *Task) {
	s.wg.Add(1)
	go func() {
		defer s.wg.Done()
		<-t.resume
		s.cur = t
		if t.kill == "" {
			t.run()
		}
		t.done = true
		s.pickNext(t)
	}()
}

// Go replaces the go statement: under simulation the new goroutine becomes a task of the
// running simulation; whether it runs before its parent continues is a scheduling decision.
func Go(fn func()) {
	s := active
	if s == nil {
		go fn()
		return
	}
	parent := s.cur
	t := &Task{ID: len(s.Tasks), Fn: fn, Budget: parent.Budget, resume: make(chan struct{}, 1)}
	t.vc = make([]int64, t.ID+1)
	copy(t.vc, parent.vc) // everything before the go statement happens before the goroutine
	t.vc[t.ID] = 1
	if parent.ID < len(parent.vc) {
		parent.vc[parent.ID]++
	}
	s.Tasks = append(s.Tasks, t)
	s.Spawned++
	s.launch(t)
	if s.decide(2) == 1 {
		s.switchFrom(parent, t.ID)
	}
}

// RunSolo runs fn on the calling goroutine as the single task of a
// simulation: steps are counted, the step budget is enforced, panics are
// caught. There is no scheduling.
func RunSolo(fn func(), budget int64) *Task {
	if active != nil {
		panic("simrt: nested simulation")
	}
	t := &Task{ID: 0, Fn: fn, Budget: budget, vc: []int64{1}, resume: make(chan struct{}, 1)}
	s := &Sched{Tasks: []*Task{t}, cur: t, solo: true, roots: 1, mainWake: make(chan struct{}, 1), raceSeen: map[string]bool{}}
	active = s
	defer func() { active = nil }()
	t.started = true
	t.run()
	t.done = true
	if len(s.Tasks) > 1 {
		// goroutines started by the code under test: let them finish (or unwind them)
		pending := false
		for _, c := range s.Tasks[1:] {
			if !c.done {
				pending = true
			}
		}
		if pending {
			s.pickNext(t)
			select {
			case <-s.mainWake:
			case <-time.After(60 * time.Second):
				s.Watchdog = true
				if t.Aborted == "" {
					t.Aborted = "simulator watchdog: goroutines of the code under test did not finish"
				}
				return t
			}
		}
		s.wg.Wait()
		if s.Leaked > 0 && t.Aborted == "" && t.Panic == "" {
			t.LeakedGoroutines = s.Leaked
		}
	}
	if s.Deadlock && t.Aborted == "" {
		t.Aborted = "deadlock"
	}
	if s.BudgetHit != "" && t.Aborted == "" {
		t.Aborted = s.BudgetHit
	}
	return t
}

// ---- simulated synchronisation --------------------------------------------

func (s *Sched) block(on any) {
	t := s.cur
	t.blocked = on
	s.pickNext(t)
	if t.kill == "" {
		<-t.resume
		s.cur = t
	}
	if t.kill != "" {
		t.blocked = nil
		panic(abortSentinel{t.kill})
	}
}

func (s *Sched) unblockAll(on any) {
	for _, t := range s.Tasks {
		if t.blocked == on {
			t.blocked = nil
		}
	}
}

func joinVC(dst, src []int64) []int64 {
	for len(dst) < len(src) {
		dst = append(dst, 0)
	}
	for i, v := range src {
		if v > dst[i] {
			dst[i] = v
		}
	}
	return dst
}

// Mutex replaces sync.Mutex in the instrumented tree.
type Mutex struct {
	mu   sync.Mutex
	held bool
	vc   []int64
}

func (m *Mutex) Lock() {
	s := active
	if s == nil {
		m.mu.Lock()
		return
	}
	Yield(SiteLock)
	for m.held {
		s.block(m)
	}
	m.held = true
	s.cur.vc = joinVC(s.cur.vc, m.vc)
}

func (m *Mutex) TryLock() bool {
	s := active
	if s == nil {
		return m.mu.TryLock()
	}
	Yield(SiteLock)
	if m.held {
		return false
	}
	m.held = true
	s.cur.vc = joinVC(s.cur.vc, m.vc)
	return true
}

func (m *Mutex) Unlock() {
	s := active
	if s == nil {
		m.mu.Unlock()
		return
	}
	if !m.held {
		panic("sync: unlock of unlocked mutex")
	}
	t := s.cur
	m.vc = joinVC(m.vc, t.vc)
	t.vc[t.ID]++
	m.held = false
	s.unblockAll(m)
	Yield(SiteLock)
}

// unblockChan wakes tasks blocked on the channel itself or in a select that involves it.
func (s *Sched) unblockChan(c any) {
	for _, t := range s.Tasks {
		if t.blocked == c {
			t.blocked = nil
		} else if sw, ok := t.blocked.(*selectWait); ok {
			for _, x := range sw.chans {
				if x == c {
					t.blocked = nil
					break
				}
			}
		}
	}
}

type selectWait struct{ chans []any }

// RWMutex replaces sync.RWMutex.
type RWMutex struct {
	mu      sync.RWMutex
	writer  bool
	readers int
	vc      []int64 // released by writers
	rvc     []int64 // released by readers
}

func (m *RWMutex) Lock() {
	s := active
	if s == nil {
		m.mu.Lock()
		return
	}
	Yield(SiteLock)
	for m.writer || m.readers > 0 {
		s.block(m)
	}
	m.writer = true
	s.cur.vc = joinVC(joinVC(s.cur.vc, m.vc), m.rvc)
}

func (m *RWMutex) Unlock() {
	s := active
	if s == nil {
		m.mu.Unlock()
		return
	}
	if !m.writer {
		panic("sync: Unlock of unlocked RWMutex")
	}
	t := s.cur
	m.vc = joinVC(m.vc, t.vc)
	t.vc[t.ID]++
	m.writer = false
	s.unblockAll(m)
	Yield(SiteLock)
}

func (m *RWMutex) RLock() {
	s := active
	if s == nil {
		m.mu.RLock()
		return
	}
	Yield(SiteLock)
	for m.writer {
		s.block(m)
	}
	m.readers++
	s.cur.vc = joinVC(s.cur.vc, m.vc)
}

func (m *RWMutex) RUnlock() {
	s := active
	if s == nil {
		m.mu.RUnlock()
		return
	}
	if m.readers <= 0 {
		panic("sync: RUnlock of unlocked RWMutex")
	}
	t := s.cur
	m.rvc = joinVC(m.rvc, t.vc)
	t.vc[t.ID]++
	m.readers--
	s.unblockAll(m)
	Yield(SiteLock)
}

func (m *RWMutex) TryLock() bool {
	s := active
	if s == nil {
		return m.mu.TryLock()
	}
	if m.writer || m.readers > 0 {
		return false
	}
	m.Lock()
	return true
}

func (m *RWMutex) TryRLock() bool {
	s := active
	if s == nil {
		return m.mu.TryRLock()
	}
	if m.writer {
		return false
	}
	m.RLock()
	return true
}

// RLocker mirrors sync.RWMutex.RLocker.
func (m *RWMutex) RLocker() sync.Locker { return rlocker{m} }

type rlocker struct{ m *RWMutex }

func (r rlocker) Lock()   { r.m.RLock() }
func (r rlocker) Unlock() { r.m.RUnlock() }

// Once replaces sync.Once.
type Once struct {
	m    Mutex
	done bool
}

func (o *Once) Do(f func()) {
	o.m.Lock()
	defer o.m.Unlock()
	if !o.done {
		defer func() { o.done = true }()
		f()
	}
}

// Pool replaces sync.Pool with a deterministic LIFO free list.
type Pool struct {
	New   func() any
	mu    sync.Mutex
	items []any
}

func (p *Pool) Get() any {
	Yield(SiteLock)
	p.mu.Lock()
	if n := len(p.items); n > 0 {
		x := p.items[n-1]
		p.items = p.items[:n-1]
		p.mu.Unlock()
		return x
	}
	p.mu.Unlock()
	// New is code under test: it contains scheduling points and must run without any real lock held
	if p.New != nil {
		return p.New()
	}
	return nil
}

func (p *Pool) Put(x any) {
	Yield(SiteLock)
	p.mu.Lock()
	p.items = append(p.items, x)
	p.mu.Unlock()
}

// Protect runs fn and converts a panic of the code under test into a string.
// The simulator's own unwinding (step budget, deadlock) passes through.
func Protect(fn func()) (panicMsg string) {
	defer func() {
		if r := recover(); r != nil {
			if a, ok := r.(abortSentinel); ok {
				panic(a)
			}
			panicMsg = normPanic(r)
			if panicMsg == "" {
				panicMsg = "panic"
			}
			panicMsg += " @" + panicSite(string(debug.Stack()))
		}
	}()
	fn()
	return ""
}
