package simrt

import (
	"math/rand"
	"time"
)

// Clock is the simulated wall clock: Base plus one microsecond per simulator
// step. The code under test has no timers, so there is no event queue.
type Clock struct {
	Base  time.Time
	Reads int
	// Rate is the simulated time per scheduling step in nanoseconds (0 = 1000, i.e. 1 µs): a slow or
	// fast machine. The code has no timers, so skew is the only thing a clock can do to it.
	Rate int64
}

var (
	clock *Clock
	rng   *rand.Rand
)

// SetClock installs (or with nil removes) the simulated clock and the seeded
// replacement of the global math/rand stream.
func SetClock(c *Clock, seed int64) {
	clock = c
	if c == nil {
		rng = nil
		return
	}
	rng = rand.New(rand.NewSource(seed))
}

// ClockReads says how often the code under test read the clock.
func ClockReads() int {
	if clock == nil {
		return 0
	}
	return clock.Reads
}

func Now() time.Time {
	if clock == nil {
		return time.Now()
	}
	clock.Reads++
	rate := clock.Rate
	if rate <= 0 {
		rate = 1000
	}
	return clock.Base.Add(time.Duration((Steps() + int64(clock.Reads)) * rate))
}

func Since(t time.Time) time.Duration { return Now().Sub(t) }
func Until(t time.Time) time.Duration { return t.Sub(Now()) }

// Sleep under simulation is a scheduling point that takes no time.
func Sleep(d time.Duration) {
	if active == nil {
		time.Sleep(d)
		return
	}
	Yield(SiteLock)
}

var fallbackRng = rand.New(rand.NewSource(1))

// Rand replaces the global math/rand functions: rand.Intn(n) -> simrt.Rand().Intn(n).
func Rand() *rand.Rand {
	if rng == nil {
		// pass-through mode: behave like an unseeded global stream
		return rand.New(rand.NewSource(time.Now().UnixNano()))
	}
	clock.Reads++
	return rng
}
