package simrt

import "sync"

// ---- WaitGroup ---------------------------------------------------------------

// WaitGroup replaces sync.WaitGroup.
type WaitGroup struct {
	wg sync.WaitGroup
	n  int
	vc []int64
}

func (w *WaitGroup) Add(delta int) {
	s := active
	if s == nil {
		w.wg.Add(delta)
		return
	}
	w.n += delta
	if w.n < 0 {
		panic("sync: negative WaitGroup counter")
	}
	if w.n == 0 {
		s.unblockAll(w)
	}
}

func (w *WaitGroup) Done() {
	s := active
	if s == nil {
		w.wg.Done()
		return
	}
	t := s.cur
	w.vc = joinVC(w.vc, t.vc)
	if t.ID < len(t.vc) {
		t.vc[t.ID]++
	}
	w.Add(-1)
	Yield(SiteLock)
}

func (w *WaitGroup) Wait() {
	s := active
	if s == nil {
		w.wg.Wait()
		return
	}
	Yield(SiteLock)
	for w.n > 0 {
		s.block(w)
	}
	s.cur.vc = joinVC(s.cur.vc, w.vc)
}

// ---- channels ------------------------------------------------------------------

// Chan replaces `chan T`. Without a running simulation it wraps a real channel.
type Chan[T any] struct {
	real   chan T
	buf    []T
	cap    int
	closed bool
	sent   uint64 // items ever enqueued
	recvd  uint64 // items ever dequeued
	sel    T      // value delivered by the last successful receive case of a select
	selOK  bool
	vc     []int64
}

// NewChan replaces make(chan T, n). Every channel has both representations: outside a simulation
// (pass-through mode, the -race companion) operations go to the real channel; while a simulation
// is running they go to the simulated queue, whoever created the channel and whenever — a
// package-level semaphore is created at init time and used inside simulations.
func NewChan[T any](n int) *Chan[T] {
	return &Chan[T]{real: make(chan T, n), cap: n}
}

// adopt moves what was put into the real channel outside a simulation (a token pool filled by an
// init function) into the simulated queue.
func (c *Chan[T]) adopt() {
	for len(c.real) > 0 {
		c.buf = append(c.buf, <-c.real)
		c.sent++
	}
}

func (c *Chan[T]) Send(v T) {
	if c == nil {
		blockForever()
		return
	}
	s := active
	if s == nil {
		c.real <- v
		return
	}
	c.adopt()
	Yield(SiteLock)
	for !c.closed && c.cap > 0 && len(c.buf) >= c.cap {
		s.block(c)
	}
	if c.closed {
		panic("send on closed channel")
	}
	t := s.cur
	c.vc = joinVC(c.vc, t.vc)
	if t.ID < len(t.vc) {
		t.vc[t.ID]++
	}
	c.buf = append(c.buf, v)
	c.sent++
	seq := c.sent
	s.unblockChan(c)
	if c.cap == 0 {
		// unbuffered: rendezvous, wait until this item has been received
		for c.recvd < seq && !c.closed {
			s.block(c)
		}
	}
}

func (c *Chan[T]) ready() bool { return len(c.buf) > 0 || c.closed }

func (c *Chan[T]) take() (T, bool) {
	var zero T
	if len(c.buf) == 0 {
		return zero, false
	}
	v := c.buf[0]
	c.buf = c.buf[1:]
	c.recvd++
	s := active
	s.cur.vc = joinVC(s.cur.vc, c.vc)
	s.unblockChan(c)
	return v, true
}

func (c *Chan[T]) Recv2() (T, bool) {
	var zero T
	if c == nil {
		blockForever()
		return zero, false
	}
	s := active
	if s == nil {
		v, ok := <-c.real
		return v, ok
	}
	c.adopt()
	Yield(SiteLock)
	for !c.ready() {
		s.block(c)
	}
	return c.take()
}

func (c *Chan[T]) Recv() T {
	v, _ := c.Recv2()
	return v
}

func (c *Chan[T]) Close() {
	if c.closed {
		panic("close of closed channel")
	}
	c.closed = true
	if s := active; s != nil {
		c.adopt()
		t := s.cur
		c.vc = joinVC(c.vc, t.vc)
		s.unblockChan(c)
		return
	}
	close(c.real)
}

func (c *Chan[T]) Len() int {
	if c == nil {
		return 0
	}
	if active == nil {
		return len(c.real)
	}
	return len(c.buf) + len(c.real)
}

func (c *Chan[T]) Cap() int {
	if c == nil {
		return 0
	}
	return c.cap
}

// Selected returns the value received by the last select case on this channel.
func (c *Chan[T]) Selected() T          { return c.sel }
func (c *Chan[T]) Selected2() (T, bool) { return c.sel, c.selOK }

func blockForever() {
	s := active
	if s == nil {
		select {}
	}
	for {
		s.block(&struct{ int }{})
	}
}

// ---- select ----------------------------------------------------------------------

// SelCase is one communication case of a select statement.
type SelCase interface {
	ready() bool
	fire()
	ch() any
	realCase() (send bool, fireReal func() bool)
}

type recvCase[T any] struct{ c *Chan[T] }
type sendCase[T any] struct {
	c *Chan[T]
	v T
}

func RecvCase[T any](c *Chan[T]) SelCase      { return recvCase[T]{c} }
func SendCase[T any](c *Chan[T], v T) SelCase { return sendCase[T]{c, v} }

func (r recvCase[T]) ready() bool {
	if r.c == nil {
		return false
	}
	r.c.adopt()
	return r.c.ready()
}
func (r recvCase[T]) fire() {
	v, ok := r.c.take()
	r.c.sel, r.c.selOK = v, ok
}
func (r recvCase[T]) ch() any { return r.c }
func (r recvCase[T]) realCase() (bool, func() bool) {
	return false, func() bool {
		select {
		case v, ok := <-r.c.real:
			r.c.sel, r.c.selOK = v, ok
			return true
		default:
			return false
		}
	}
}

func (w sendCase[T]) ready() bool {
	c := w.c
	if c == nil {
		return false
	}
	if c.closed {
		return true // will panic, like Go
	}
	c.adopt()
	if c.cap > 0 {
		return len(c.buf) < c.cap
	}
	// unbuffered: ready iff a receiver is blocked on the channel
	s := active
	for _, t := range s.Tasks {
		if t.blocked == any(c) {
			return true
		}
	}
	return false
}
func (w sendCase[T]) fire() {
	c := w.c
	if c.closed {
		panic("send on closed channel")
	}
	s := active
	c.vc = joinVC(c.vc, s.cur.vc)
	c.buf = append(c.buf, w.v)
	c.sent++
	s.unblockChan(c)
}
func (w sendCase[T]) ch() any { return w.c }
func (w sendCase[T]) realCase() (bool, func() bool) {
	return true, func() bool {
		select {
		case w.c.real <- w.v:
			return true
		default:
			return false
		}
	}
}

// Select replaces a select statement: it returns the index of the case that fired, or -1 for
// the default case. Which of several ready cases fires is a scheduling decision.
func Select(hasDefault bool, cases ...SelCase) int {
	s := active
	if s == nil {
		// pass-through: poll the real channels (fair enough for a pass-through mode)
		for {
			for i, c := range cases {
				if _, f := c.realCase(); f() {
					return i
				}
			}
			if hasDefault {
				return -1
			}
			Gosched()
		}
	}
	Yield(SiteLock)
	for {
		var ready []int
		for i, c := range cases {
			if c.ready() {
				ready = append(ready, i)
			}
		}
		if len(ready) > 0 {
			i := ready[s.decide(len(ready))]
			cases[i].fire()
			return i
		}
		if hasDefault {
			return -1
		}
		sw := &selectWait{}
		for _, c := range cases {
			sw.chans = append(sw.chans, c.ch())
		}
		s.block(sw)
	}
}
