package simrt

import "sync"

// Map replaces sync.Map in the instrumented tree: same API, but Range visits
// the entries in the order the simulator prescribes (seam S1) and every
// operation is a scheduling point. Entries are kept in insertion order so that
// nothing depends on Go's map iteration.
type Map struct {
	mu   sync.Mutex
	keys []any
	vals map[any]any
}

func (m *Map) lock() {
	Yield(SiteLock)
	m.mu.Lock()
	if m.vals == nil {
		m.vals = map[any]any{}
	}
}

func (m *Map) Load(key any) (any, bool) {
	m.lock()
	defer m.mu.Unlock()
	v, ok := m.vals[key]
	return v, ok
}

func (m *Map) Store(key, value any) {
	m.lock()
	defer m.mu.Unlock()
	if _, ok := m.vals[key]; !ok {
		m.keys = append(m.keys, key)
	}
	m.vals[key] = value
}

func (m *Map) LoadOrStore(key, value any) (any, bool) {
	m.lock()
	defer m.mu.Unlock()
	if v, ok := m.vals[key]; ok {
		return v, true
	}
	m.keys = append(m.keys, key)
	m.vals[key] = value
	return value, false
}

func (m *Map) del(key any) {
	delete(m.vals, key)
	for i, k := range m.keys {
		if k == key {
			m.keys = append(m.keys[:i:i], m.keys[i+1:]...)
			break
		}
	}
}

func (m *Map) LoadAndDelete(key any) (any, bool) {
	m.lock()
	defer m.mu.Unlock()
	v, ok := m.vals[key]
	if ok {
		m.del(key)
	}
	return v, ok
}

func (m *Map) Delete(key any) { m.LoadAndDelete(key) }

func (m *Map) Swap(key, value any) (any, bool) {
	m.lock()
	defer m.mu.Unlock()
	old, ok := m.vals[key]
	if !ok {
		m.keys = append(m.keys, key)
	}
	m.vals[key] = value
	return old, ok
}

func (m *Map) CompareAndSwap(key, old, new any) bool {
	m.lock()
	defer m.mu.Unlock()
	if v, ok := m.vals[key]; ok && v == old {
		m.vals[key] = new
		return true
	}
	return false
}

func (m *Map) CompareAndDelete(key, old any) bool {
	m.lock()
	defer m.mu.Unlock()
	if v, ok := m.vals[key]; ok && v == old {
		m.del(key)
		return true
	}
	return false
}

func (m *Map) Clear() {
	m.lock()
	defer m.mu.Unlock()
	m.keys = nil
	m.vals = map[any]any{}
}

// Range visits a snapshot of the entries; the order is decided by the order
// seam (site -5 is shared by all sync.Map ranges).
func (m *Map) Range(f func(key, value any) bool) {
	m.lock()
	keys := append([]any{}, m.keys...)
	m.mu.Unlock()
	if order != nil && !(order.Default == Native && len(order.PerSite) == 0) {
		canon := canonicalOrder(len(keys), func(i int) any { return keys[i] })
		p := perm(SiteSyncMap, len(keys))
		out := make([]any, len(keys))
		for i, pi := range p {
			out[i] = keys[canon[pi]]
		}
		keys = out
	}
	for _, k := range keys {
		m.mu.Lock()
		v, ok := m.vals[k]
		m.mu.Unlock()
		if !ok {
			continue
		}
		if !f(k, v) {
			return
		}
	}
}

// SiteSyncMap is the pseudo site id of sync.Map ranges.
const SiteSyncMap = -5
